package main

// 22. Kafka worker: `sendBatchToKafka` and the body of the loop of `StartTransporting` translated statement by
// statement, in source order, into Gen/KafkaSrc.lean (one iteration as a function of what the world does for the
// batch). Theorem `kafka_iteration_as_in_source` (C14): the model's `processBatch` is that function, and the
// loop is left (deferred `shutdown`) on every result but "written"/"continue".

import (
	"go/ast"
	"os"
	"path/filepath"
	"strings"
)

func kafkaStatName(txt string) (string, string) {
	// t.statsChan <- stats.NewStatCount("kafka_transport", "<name>", <arg>, ts.UnixNano())
	for _, ctor := range []string{"stats.NewStatCount(", "stats.NewStatHistogram("} {
		p := "t.statsChan <- " + ctor + "\"kafka_transport\", \""
		if strings.HasPrefix(txt, p) {
			rest := txt[len(p):]
			i := strings.Index(rest, "\"")
			if i < 0 {
				return "", ""
			}
			name := rest[:i]
			rest = strings.TrimPrefix(rest[i+1:], ", ")
			j := strings.Index(rest, ", ts.UnixNano()")
			if j < 0 {
				return "", ""
			}
			return name, rest[:j]
		}
	}
	return "", ""
}

func genKafkaSrc(repo, outDir string) {
	f := parseFile(filepath.Join(repo, "transport/transporters/kafka/transporter/transporter.go"))
	sb := findFunc(f, "sendBatchToKafka", "KafkaTransporter")
	st := findFunc(f, "StartTransporting", "KafkaTransporter")
	if sb == nil || st == nil {
		die("kafka: sendBatchToKafka / StartTransporting not found")
	}
	// ---- sendBatchToKafka ----
	var s1 []string // Lean lines of a do block over `mut r : SendRes`
	phase := 0      // 0 before select, 1 after select, 2 after SendMessages, 3 after nil test, 4 after assertion
	for _, s := range sb.Body.List {
		txt := squash(src(s))
		switch x := s.(type) {
		case *ast.DeclStmt:
			if txt != "var cancelled bool" && txt != "var ts = TimeSource" {
				die("kafka: declaration outside the subset: %s", txt)
			}
		case *ast.SelectStmt:
			if phase != 0 {
				die("kafka: select after the send")
			}
			ok := false
			for _, cl := range x.Body.List {
				cc := cl.(*ast.CommClause)
				if cc.Comm == nil {
					if len(cc.Body) != 0 {
						die("kafka: default case with a body")
					}
					continue
				}
				if squash(src(cc.Comm)) != "<-ctx.Done()" {
					die("kafka: unexpected select case %s", squash(src(cc.Comm)))
				}
				setC, ret := false, false
				for _, b := range cc.Body {
					switch squash(src(b)) {
					case "cancelled = true":
						setC = true
					case "return nil, cancelled":
						ret = setC
					default:
						if !strings.HasPrefix(squash(src(b)), "t.log.") {
							die("kafka: unexpected statement in the cancellation case: %s", squash(src(b)))
						}
					}
				}
				ok = setC && ret
			}
			if !ok {
				die("kafka: cancellation case does not `cancelled = true; return nil, cancelled`")
			}
			s1 = append(s1, "if out.isCancelled then return { r with cancelled := true }")
			phase = 1
		case *ast.AssignStmt:
			switch {
			case txt == "err := t.kafkaProducer.SendMessages(produceMessages)" && phase == 1:
				s1 = append(s1, "r := { r with sent := some payload }")
				phase = 2
			case txt == "produceErrors := err.(sarama.ProducerErrors)" && phase == 3:
				s1 = append(s1, "if out = .otherError then return { r with panicked := true }")
				phase = 4
			case txt == "errorMessages := map[string]int{}" && phase == 4:
			case strings.HasPrefix(txt, "err = errors.New(") && phase == 4:
			default:
				die("kafka: assignment outside the subset (phase %d): %s", phase, txt)
			}
		case *ast.IfStmt:
			if phase != 2 || squash(src(x.Cond)) != "err == nil" || x.Else != nil || x.Init != nil {
				die("kafka: unexpected if in sendBatchToKafka: %s", squash(src(x.Cond)))
			}
			var inner []string
			ret := false
			for _, b := range x.Body.List {
				bt := squash(src(b))
				if name, arg := kafkaStatName(bt); name != "" {
					if name != "success" || arg != "1" {
						die("kafka: stat in the success branch: %s %s", name, arg)
					}
					inner = append(inner, "r := { r with successStat := r.successStat + 1 }")
				} else if bt == "return nil, cancelled" {
					ret = true
				} else {
					die("kafka: success branch statement outside the subset: %s", bt)
				}
			}
			if !ret {
				die("kafka: the success branch does not return nil")
			}
			s1 = append(s1, "if out = .accepted then")
			for _, l := range inner {
				s1 = append(s1, "  "+l)
			}
			s1 = append(s1, "  return r")
			phase = 3
		case *ast.ForStmt:
			if phase != 4 {
				die("kafka: loop before the assertion")
			}
		case *ast.ExprStmt:
			if !strings.HasPrefix(txt, "t.log.") {
				die("kafka: statement outside the subset: %s", txt)
			}
		case *ast.SendStmt:
			name, arg := kafkaStatName(txt)
			if phase != 4 || name != "failure" || arg != "int64(len(produceErrors))" {
				die("kafka: unexpected stat: %s", txt)
			}
			s1 = append(s1, "r := { r with failureStat := some out.nErrors }")
		case *ast.ReturnStmt:
			if txt != "return err, cancelled" || phase != 4 {
				die("kafka: unexpected return: %s", txt)
			}
			s1 = append(s1, "return { r with err := true }")
			phase = 9
		default:
			die("kafka: statement outside the subset: %s", txt)
		}
	}
	if phase != 9 {
		die("kafka: sendBatchToKafka does not end with `return err, cancelled`")
	}
	// ---- StartTransporting: deferred shutdown, loop body ----
	deferred := false
	var loop *ast.ForStmt
	for _, s := range st.Body.List {
		switch x := s.(type) {
		case *ast.DeferStmt:
			if squash(src(x.Call)) == "t.shutdown()" {
				deferred = true
			}
		case *ast.ForStmt:
			loop = x
		}
	}
	if !deferred || loop == nil || loop.Cond != nil {
		die("kafka: StartTransporting: `defer t.shutdown()` / `for {` not found")
	}
	var s2 []string
	lp := 0 // 0 first select, 1 second select, 2 closed test, 3 assertions…, 5 after send
	for _, s := range loop.Body.List {
		txt := squash(src(s))
		switch x := s.(type) {
		case *ast.SelectStmt:
			recv := false
			term := false
			for _, cl := range x.Body.List {
				cc := cl.(*ast.CommClause)
				if cc.Comm == nil {
					continue
				}
				switch squash(src(cc.Comm)) {
				case "<-t.shutdownHandler.TerminateCtx.Done()":
					if len(cc.Body) == 0 || squash(src(cc.Body[len(cc.Body)-1])) != "return" {
						die("kafka: terminate case does not return")
					}
					term = true
				case "b, ok = <-t.inputChan":
					recv = true
				default:
					die("kafka: unexpected select case %s", squash(src(cc.Comm)))
				}
			}
			if !term || lp > 1 || (lp == 0 && !recv) {
				die("kafka: loop select outside the subset")
			}
			if lp == 0 {
				s2 = append(s2, "if j.out = .cancelled true then return { r with result := .cancelled }")
			}
			lp++
		case *ast.IfStmt:
			c := squash(src(x.Cond))
			last := squash(src(x.Body.List[len(x.Body.List)-1]))
			switch {
			case c == "!ok" && last == "return" && lp == 2: // channel closed: not a job
				lp = 3
			case c == "!ok" && strings.HasPrefix(last, "panic(") && (lp == 3 || lp == 4):
			case c == "err != nil" && last == "return" && lp == 5:
				s2 = append(s2, "if sr.err then return { r with result := .rejected }")
			case c == "cancelled" && last == "continue" && lp == 5:
				s2 = append(s2, "if sr.cancelled then return { r with result := .cancelled }")
			default:
				die("kafka: loop condition outside the subset (phase %d): if %s { … %s }", lp, c, last)
			}
		case *ast.AssignStmt:
			switch {
			case txt == "kafkaBatch, ok := b.(*batch.KafkaBatch)" && lp == 3:
			case txt == "messages := kafkaBatch.GetPayload()" && lp == 3:
			case txt == "producerMessageSlice, ok := messages.([]*sarama.ProducerMessage)" && lp == 3:
				lp = 4
			case txt == "start := ts.UnixNano()" && lp == 4:
			case txt == "err, cancelled := t.sendBatchToKafka(t.shutdownHandler.TerminateCtx, producerMessageSlice)" && lp == 4:
				s2 = append(s2, "let sr := sendBatch j.payload j.out")
				s2 = append(s2, "r := { r with sent := sr.sent, successStat := sr.successStat, failureStat := sr.failureStat }")
				s2 = append(s2, "if sr.panicked then return { r with result := .panicked }")
				lp = 5
			case strings.HasPrefix(txt, "total := ") && lp == 5:
			default:
				die("kafka: loop assignment outside the subset (phase %d): %s", lp, txt)
			}
		case *ast.SendStmt:
			if lp != 5 {
				die("kafka: send before the batch was sent: %s", txt)
			}
			if name, arg := kafkaStatName(txt); name != "" {
				switch {
				case name == "duration":
					s2 = append(s2, "r := { r with durationStat := true }")
				case name == "written" && arg == "int64(len(producerMessageSlice))":
					s2 = append(s2, "r := { r with writtenStat := some j.payload.length }")
				default:
					die("kafka: unexpected stat %s(%s)", name, arg)
				}
			} else if txt == "t.txnsWritten <- kafkaBatch.GetTransactions()" {
				s2 = append(s2, "r := { r with reported := some j.txns }")
			} else {
				die("kafka: unexpected send: %s", txt)
			}
		case *ast.ExprStmt:
			if !strings.HasPrefix(txt, "t.log.") {
				die("kafka: loop statement outside the subset: %s", txt)
			}
		default:
			die("kafka: loop statement outside the subset: %s", txt)
		}
	}
	if lp != 5 {
		die("kafka: the loop never sends the batch")
	}
	var b strings.Builder
	b.WriteString("import PgBifrost.Model.KafkaSend\n/-! GENERATED by tools/factgen from the Kafka transporter (sendBatchToKafka, StartTransporting). Do not edit. -/\n")
	b.WriteString("namespace PgBifrost.Gen.KafkaSrc\nopen PgBifrost.KafkaSend PgBifrost.Batch\n\n")
	b.WriteString("def _root_.PgBifrost.KafkaSend.Outcome.isCancelled : Outcome → Bool\n  | .cancelled _ => true\n  | _ => false\n")
	b.WriteString("def _root_.PgBifrost.KafkaSend.Outcome.nErrors : Outcome → Nat\n  | .rejected idxs => idxs.length\n  | _ => 0\n\n")
	b.WriteString("structure SendRes where\n  sent : Option (List PMsg) := none\n  err : Bool := false\n  cancelled : Bool := false\n  panicked : Bool := false\n  successStat : Nat := 0\n  failureStat : Option Nat := none\n\n")
	b.WriteString("/-- `sendBatchToKafka`, statement by statement -/\ndef sendBatch (payload : List PMsg) (out : Outcome) : SendRes := Id.run do\n  let mut r : SendRes := {}\n")
	for _, l := range s1 {
		b.WriteString("  " + l + "\n")
	}
	b.WriteString("\n/-- one pass through the body of the loop of `StartTransporting` for a batch taken from the input channel;\nevery `return` runs the deferred `shutdown` -/\ndef iteration (j : Job) : Report := Id.run do\n")
	b.WriteString("  let mut r : Report := ⟨none, .written, none, 0, none, none, false⟩\n")
	for _, l := range s2 {
		b.WriteString("  " + l + "\n")
	}
	b.WriteString("  return r\n\nend PgBifrost.Gen.KafkaSrc\n")
	os.WriteFile(filepath.Join(outDir, "KafkaSrc.lean"), []byte(b.String()), 0o644)
}
