package main

// 16. filter/filter.go translated: Gen/FilterSrc.lean
//   * `New`: the pass-through rule, and that every list entry is compiled as its own regular expression
//     (`regexlist[i] = regexp.Compile(tablelist[i])`: patterns are matched one by one);
//   * `Start`: what happens to one received message after the two selects - forwarded (true) or dropped (false).
// Theorem `filter_as_in_source` (C08) proves the model's `passes` equal to it.

import (
	"go/ast"
	"go/token"
	"os"
	"path/filepath"
	"strings"
)

type filtTr struct {
	b   strings.Builder
	ind int
}

func (t *filtTr) line(s string) { t.b.WriteString(strings.Repeat("  ", t.ind) + s + "\n") }

// is the block `OutputChan <- msg ; stat passed ; continue` (forward) or `stat filtered ; continue` (drop)?
func forwardOrDrop(list []ast.Stmt) string {
	sent, cont, filteredStat := false, false, false
	for _, s := range list {
		txt := squash(src(s))
		switch {
		case txt == "f.OutputChan <- msg":
			sent = true
		case strings.HasPrefix(txt, "f.statsChan <- stats.NewStatCount(\"filter\", \"passed\""):
		case strings.HasPrefix(txt, "f.statsChan <- stats.NewStatCount(\"filter\", \"filtered\""):
			filteredStat = true
		case txt == "continue":
			cont = true
		default:
			return ""
		}
	}
	if !cont {
		return ""
	}
	if sent && !filteredStat {
		return "forward"
	}
	if !sent && filteredStat {
		return "drop"
	}
	return ""
}

// search loop idiom: for _, item := range LIST { if COND { found = true; break } }
func searchLoop(s ast.Stmt) (list, cond string, ok bool) {
	r, isR := s.(*ast.RangeStmt)
	if !isR || len(r.Body.List) != 1 || squash(src(r.Value)) != "item" {
		return "", "", false
	}
	ifs, isI := r.Body.List[0].(*ast.IfStmt)
	if !isI || ifs.Else != nil || len(ifs.Body.List) != 2 || squash(src(ifs.Body.List[0])) != "found = true" || squash(src(ifs.Body.List[1])) != "break" {
		return "", "", false
	}
	c := squash(src(ifs.Cond))
	if ifs.Init != nil {
		c = squash(src(ifs.Init)) + "; " + c
	}
	return squash(src(r.X)), c, true
}

func (t *filtTr) boolAssign(list []ast.Stmt, varName string) {
	for _, s := range list {
		switch x := s.(type) {
		case *ast.AssignStmt:
			txt := squash(src(x))
			if txt == varName+" = false" {
				t.line(varName + " := false")
			} else if txt == varName+" = true" {
				t.line(varName + " := true")
			} else {
				die("filter: unexpected assignment: %s", txt)
			}
		case *ast.IfStmt:
			c := squash(src(x.Cond))
			lc := map[string]string{"f.whitelist": "c.whitelist", "found": "found", "!found": "!found"}[c]
			if lc == "" || x.Init != nil {
				die("filter: unexpected condition in the filtered logic: %s", c)
			}
			t.line("if " + lc + " then")
			t.ind++
			t.boolAssign(x.Body.List, varName)
			t.ind--
			if x.Else != nil {
				t.line("else")
				t.ind++
				t.boolAssign(x.Else.(*ast.BlockStmt).List, varName)
				t.ind--
			}
		default:
			die("filter: unexpected statement in the filtered logic: %s", squash(src(s)))
		}
	}
}

func genFilterSrc(repo, outDir string) {
	f := parseFile(filepath.Join(repo, "filter/filter.go"))
	nw := findFunc(f, "New", "")
	st := findFunc(f, "Start", "Filter")
	if nw == nil || st == nil {
		die("filter: New / Start not found")
	}
	// New: passthrough := false; if COND { passthrough = true }
	pass := ""
	perEntry := false
	for i, s := range nw.Body.List {
		if squash(src(s)) == "passthrough := false" && i+1 < len(nw.Body.List) {
			ifs, ok := nw.Body.List[i+1].(*ast.IfStmt)
			if !ok || len(ifs.Body.List) != 1 || squash(src(ifs.Body.List[0])) != "passthrough = true" || ifs.Else != nil {
				die("filter: New: pass-through rule does not have the expected shape")
			}
			tr := &condTr{what: "filter.New", vocab: map[string]string{"whitelist": "c.whitelist", "len(tablelist)": "c.tablelist.length"},
				isInt: map[string]bool{"c.tablelist.length": true}}
			pass = tr.boolExpr(ifs.Cond)
		}
		if r, ok := s.(*ast.RangeStmt); ok && squash(src(r.X)) == "tablelist" {
			// for i, item := range tablelist { regex, err := regexp.Compile(item); …; regexlist[i] = regex }
			comp, store := false, false
			for _, b := range r.Body.List {
				txt := squash(src(b))
				if txt == "regex, err := regexp.Compile(item)" {
					comp = true
				}
				if txt == "regexlist[i] = regex" {
					store = true
				}
			}
			perEntry = comp && store
		}
	}
	if pass == "" {
		die("filter: New: pass-through rule not found")
	}
	// the struct literal: which New-locals end up in which field (positional)
	// Start: the loop body after the second select
	var loop *ast.ForStmt
	for _, s := range st.Body.List {
		if fs, ok := s.(*ast.ForStmt); ok && fs.Cond == nil {
			loop = fs
		}
	}
	if loop == nil {
		die("filter: Start has no loop")
	}
	nsel := 0
	start := -1
	for i, s := range loop.Body.List {
		if _, ok := s.(*ast.SelectStmt); ok {
			nsel++
			if nsel == 2 {
				start = i + 1
				break
			}
		}
	}
	if start < 0 {
		die("filter: Start: the two selects were not found")
	}
	t := &filtTr{ind: 1}
	done := false
	for _, s := range loop.Body.List[start:] {
		if done {
			// after the final forwarding select only the `passed` statistic may follow
			if !strings.HasPrefix(squash(src(s)), "f.statsChan <- stats.NewStatCount(\"filter\", \"passed\"") {
				die("filter: unexpected statement after the forwarding select: %s", squash(src(s)))
			}
			continue
		}
		switch x := s.(type) {
		case *ast.IfStmt:
			c := squash(src(x.Cond))
			switch c {
			case "!ok":
				continue // input channel closed: the stage returns
			case "msg == nil":
				continue // logs only
			case "f.passthrough":
				if forwardOrDrop(x.Body.List) != "forward" {
					die("filter: pass-through branch does not forward")
				}
				t.line("if passthrough c then return true")
			case `msg.Pr.Operation == "BEGIN" || msg.Pr.Operation == "COMMIT"`:
				if forwardOrDrop(x.Body.List) != "forward" {
					die("filter: marker branch does not forward")
				}
				t.line("if op != .data then return true")
			case "f.regex":
				// if f.regex { var matched bool; search over regexlist } else { search over tablelist }
				var l1, c1 string
				for _, b := range x.Body.List {
					if _, isDecl := b.(*ast.DeclStmt); isDecl {
						continue
					}
					l, cc, ok := searchLoop(b)
					if !ok {
						die("filter: regex branch is not a search loop")
					}
					l1, c1 = l, cc
				}
				eb, ok := x.Else.(*ast.BlockStmt)
				if !ok || len(eb.List) != 1 {
					die("filter: list branch is not a single search loop")
				}
				l2, c2, ok2 := searchLoop(eb.List[0])
				if !ok2 || l1 != "f.regexlist" || c1 != "matched = item.MatchString(msg.Pr.Relation); matched" || l2 != "f.tablelist" || c2 != "msg.Pr.Relation == item" {
					die("filter: search loops are not (regexlist, MatchString(relation)) / (tablelist, relation == item): %s | %s | %s | %s", l1, c1, l2, c2)
				}
				t.line("if c.regex then found := (List.range c.tablelist.length).any mt")
				t.line("else found := c.tablelist.any (fun item => rel == item)")
			case "f.whitelist":
				t.boolAssign([]ast.Stmt{x}, "filtered")
			case "filtered":
				if forwardOrDrop(x.Body.List) != "drop" {
					die("filter: filtered branch does not drop")
				}
				t.line("if filtered then return false")
			default:
				die("filter: unexpected if in Start: %s", c)
			}
		case *ast.AssignStmt:
			txt := squash(src(x))
			switch {
			case txt == "found := false" && x.Tok == token.DEFINE:
				t.line("let mut found := false")
			case txt == "filtered := true" && x.Tok == token.DEFINE:
				t.line("let mut filtered := true")
			default:
				die("filter: unexpected assignment in Start: %s", txt)
			}
		case *ast.SelectStmt:
			// select { case f.OutputChan <- msg: … case <-Done: return }
			okSend := false
			for _, cl := range x.Body.List {
				cc := cl.(*ast.CommClause)
				if cc.Comm != nil && squash(src(cc.Comm)) == "f.OutputChan <- msg" {
					okSend = true
				}
			}
			if !okSend {
				die("filter: final select does not forward the message")
			}
			t.line("return true")
			done = true
		default:
			die("filter: unexpected statement in Start: %s", squash(src(s)))
		}
	}
	if !done {
		die("filter: Start never forwards")
	}
	var b strings.Builder
	b.WriteString("import PgBifrost.Model.Filter\n/-! GENERATED by tools/factgen from filter/filter.go (New, Start). Do not edit. -/\n")
	b.WriteString("namespace PgBifrost.Gen.FilterSrc\nopen PgBifrost.Filter\n\n")
	b.WriteString("/-- `filter.New`: the pass-through rule -/\ndef passthrough (c : Cfg) : Bool := " + pass + "\n\n")
	b.WriteString("/-- `filter.New` compiles every list entry as its own regular expression (`regexlist[i]`) -/\ndef compilesPerEntry : Bool := " + lb(perEntry) + "\n\n")
	b.WriteString("/-- `Filter.Start` for one received message: forwarded? (`mt i` = the i-th compiled pattern matches the relation) -/\n")
	b.WriteString("def forwards (c : Cfg) (mt : Nat → Bool) (op : MOp) (rel : String) : Bool := Id.run do\n")
	b.WriteString(t.b.String())
	b.WriteString("\nend PgBifrost.Gen.FilterSrc\n")
	os.WriteFile(filepath.Join(outDir, "FilterSrc.lean"), []byte(b.String()), 0o644)
}
