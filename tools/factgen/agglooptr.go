package main

// 32. the aggregator's workers (stats/aggregator/aggregator.go): the bucket arithmetic, the expiry test, the key,
// the three arms of the ingest closure and the two passes of the report closure: Gen/AggLoopSrc.lean. Theorem
// `aggregator_steps_as_in_source` (C19): the model's `check` / `add` / `scan` steps EQUAL the translation (Go
// maps as association lists; the scan's mark-then-delete as the filter it computes).

import (
	"go/ast"
	"os"
	"path/filepath"
	"strings"
)

func genAggLoopSrc(repo, outDir string) {
	f := parseFile(filepath.Join(repo, "stats/aggregator/aggregator.go"))
	ing := findFunc(f, "processStatsMessagesWorker", "Aggregator")
	rep := findFunc(f, "reportAggregatesWorker", "Aggregator")
	exp := findFunc(f, "isBtimeExpired", "Aggregator")
	key := findFunc(f, "computeAggregateKey", "")
	send := findFunc(f, "sendAggregate", "Aggregator")
	if ing == nil || rep == nil || exp == nil || key == nil || send == nil {
		die("agg loop: functions not found")
	}
	// constants
	grace := ""
	ast.Inspect(f, func(n ast.Node) bool {
		if vs, ok := n.(*ast.ValueSpec); ok && len(vs.Names) == 1 && vs.Names[0].Name == "reportGraceNano" && len(vs.Values) == 1 {
			grace = map[string]string{"int64(time.Second)": "1000000000"}[squash(src(vs.Values[0]))]
		}
		return true
	})
	if grace == "" {
		die("agg loop: reportGraceNano is not int64(time.Second)")
	}
	// isBtimeExpired: timeNow := a.timeNow().UnixNano(); …; return timeNow > bucketTime+a.aggregateTimeNano+reportGraceNano
	last := exp.Body.List[len(exp.Body.List)-1]
	if squash(src(exp.Body.List[0])) != "timeNow := a.timeNow().UnixNano()" {
		die("agg loop: isBtimeExpired does not read the clock first")
	}
	expExpr := map[string]string{
		"return timeNow > bucketTime+a.aggregateTimeNano+reportGraceNano": "decide (now > bucket + c.window + c.grace)",
	}[squash(src(last))]
	if expExpr == "" {
		die("agg loop: expiry test outside the subset: %s", squash(src(last)))
	}
	// computeAggregateKey: the WriteString calls in order
	var parts []string
	for _, s := range key.Body.List {
		txt := squash(src(s))
		if strings.HasPrefix(txt, "sb.WriteString(") {
			p := map[string]string{"s.Component": "i.component", "s.StatName": "i.name", "string(s.StatType)": "i.typ.str", "s.Unit": "i.unit"}[strings.TrimSuffix(strings.TrimPrefix(txt, "sb.WriteString("), ")")]
			if p == "" {
				die("agg loop: key part outside the subset: %s", txt)
			}
			parts = append(parts, p)
		}
	}
	if len(parts) == 0 {
		die("agg loop: computeAggregateKey has no parts")
	}
	// ingest worker
	bucketExpr, dropSeen := "", false
	var closure *ast.FuncLit
	var loop *ast.ForStmt
	for _, s := range ing.Body.List {
		if fs, ok := s.(*ast.ForStmt); ok {
			loop = fs
		}
	}
	if loop == nil {
		die("agg loop: ingest loop not found")
	}
	for _, s := range loop.Body.List {
		txt := squash(src(s))
		switch x := s.(type) {
		case *ast.AssignStmt:
			switch {
			case txt == "aggregateKey := computeAggregateKey(s)":
			case strings.HasPrefix(txt, "bucketTime := "):
				bucketExpr = map[string]string{"a.aggregateTimeNano * (s.Timestamp / a.aggregateTimeNano)": "c.window * Int.tdiv ts c.window"}[squash(src(x.Rhs[0]))]
				if bucketExpr == "" {
					die("agg loop: bucket arithmetic outside the subset: %s", txt)
				}
			default:
				die("agg loop: ingest: assignment outside the subset: %s", txt)
			}
		case *ast.IfStmt:
			if squash(src(x.Cond)) == "a.isBtimeExpired(bucketTime)" && squash(src(x.Body.List[len(x.Body.List)-1])) == "continue" && closure == nil {
				dropSeen = true
			} else {
				die("agg loop: ingest: if outside the subset: %s", squash(src(x.Cond)))
			}
		case *ast.ExprStmt:
			if c, ok := x.X.(*ast.CallExpr); ok {
				if fl, ok := c.Fun.(*ast.FuncLit); ok {
					closure = fl
					continue
				}
			}
			if !strings.HasPrefix(txt, "localLog.") && !strings.HasPrefix(txt, "log.") {
				die("agg loop: ingest: statement outside the subset: %s", txt)
			}
		case *ast.SelectStmt:
		default:
			die("agg loop: ingest: statement outside the subset: %s", txt)
		}
	}
	if closure == nil || !dropSeen || bucketExpr == "" {
		die("agg loop: ingest worker does not have the expected parts")
	}
	// the closure: lock; if bucket absent {new bucket; new agg; set; update; return}; if agg present {update} else {new agg; set; update}
	armOf := func(list []ast.Stmt) string {
		var got []string
		for _, b := range list {
			bt := squash(src(b))
			switch {
			case strings.HasPrefix(bt, "localLog."):
			case bt == "a.aggregates[bucketTime] = map[string]*aggregate{}":
				got = append(got, "newBucket")
			case bt == "agg := newAggregate(s, bucketTime)":
				got = append(got, "newAgg")
			case bt == "aggPtr := &agg":
			case bt == "a.aggregates[bucketTime][aggregateKey] = aggPtr":
				got = append(got, "set")
			case bt == "aggPtr.update(s)":
				got = append(got, "update")
			case bt == "return":
			default:
				die("agg loop: closure statement outside the subset: %s", bt)
			}
		}
		return strings.Join(got, ",")
	}
	var arms [3]string
	cl := closure.Body.List
	if len(cl) != 4 || squash(src(cl[0])) != "a.muAggregates.Lock()" || squash(src(cl[1])) != "defer a.muAggregates.Unlock()" {
		die("agg loop: the ingest closure does not take the lock first")
	}
	i1, ok1 := cl[2].(*ast.IfStmt)
	i2, ok2 := cl[3].(*ast.IfStmt)
	if !ok1 || !ok2 || squash(src(i1.Init)) != "_, ok := a.aggregates[bucketTime]" || squash(src(i1.Cond)) != "!ok" ||
		squash(src(i2.Init)) != "aggPtr, ok := a.aggregates[bucketTime][aggregateKey]" || squash(src(i2.Cond)) != "ok" {
		die("agg loop: the ingest closure's tests changed")
	}
	arms[0] = armOf(i1.Body.List)
	arms[1] = armOf(i2.Body.List)
	eb, ok := i2.Else.(*ast.BlockStmt)
	if !ok {
		die("agg loop: the ingest closure has no else arm")
	}
	arms[2] = armOf(eb.List)
	if arms[0] != "newBucket,newAgg,set,update" || arms[1] != "update" || arms[2] != "newAgg,set,update" {
		die("agg loop: the arms of the ingest closure changed: %v", arms)
	}
	if squash(src(i1.Body.List[len(i1.Body.List)-1])) != "return" {
		die("agg loop: the new-bucket arm does not return")
	}
	// report worker closure
	var rcl *ast.FuncLit
	ast.Inspect(rep.Body, func(n ast.Node) bool {
		if fl, ok := n.(*ast.FuncLit); ok && rcl == nil {
			rcl = fl
		}
		return true
	})
	if rcl == nil || len(rcl.Body.List) != 4 {
		die("agg loop: the report closure changed")
	}
	rng, ok := rcl.Body.List[2].(*ast.RangeStmt)
	if !ok || squash(src(rng.X)) != "a.aggregates" || squash(src(rng.Key)) != "bucketTime" || squash(src(rng.Value)) != "bucket" {
		die("agg loop: the report pass does not range over a.aggregates")
	}
	var rif *ast.IfStmt
	for _, b := range rng.Body.List {
		if x, ok := b.(*ast.IfStmt); ok {
			rif = x
		} else if !strings.HasPrefix(squash(src(b)), "localLog.") {
			die("agg loop: report pass statement outside the subset: %s", squash(src(b)))
		}
	}
	if rif == nil || squash(src(rif.Cond)) != "a.isBtimeExpired(bucketTime)" || len(rif.Body.List) != 2 ||
		squash(src(rif.Body.List[0])) != "for _, agg := range bucket { a.sendAggregate(*agg) }" ||
		squash(src(rif.Body.List[1])) != "reportedBucketBtimes[bucketTime] = true" {
		die("agg loop: the report pass changed")
	}
	if squash(src(rcl.Body.List[3])) != "if len(reportedBucketBtimes) != 0 { for bucketTime := range reportedBucketBtimes { delete(a.aggregates, bucketTime) } }" {
		die("agg loop: the delete pass changed: %s", squash(src(rcl.Body.List[3])))
	}
	if squash(src(send.Body.List[0])) != "stats := agg.toStats()" {
		die("agg loop: sendAggregate does not send agg.toStats()")
	}
	var b strings.Builder
	b.WriteString("import PgBifrost.Model.Aggregator\n/-! GENERATED by tools/factgen from stats/aggregator/aggregator.go. Do not edit. -/\n")
	b.WriteString("namespace PgBifrost.Gen.AggLoopSrc\nopen PgBifrost.Aggregator\n\n")
	b.WriteString("def graceNano : Int := " + grace + "\n")
	b.WriteString("def bucketOf (c : Cfg) (ts : Int) : Int := " + bucketExpr + "\n")
	b.WriteString("def expired (c : Cfg) (bucket now : Int) : Bool := " + expExpr + "\n")
	b.WriteString("def aggKey (i : Ident) : String := " + strings.Join(parts, " ++ ") + "\n\n")
	b.WriteString(`/-- Go map assignment on an association list: replace the first entry with the key, append when absent -/
def setKey {α β : Type} [DecidableEq α] (k : α) (v : β) : List (α × β) → List (α × β)
  | [] => [(k, v)]
  | (k', v') :: r => if k' = k then (k', v) :: r else (k', v') :: setKey k v r

/-- the ingest closure under the lock -/
def add (held : List (Int × Bucket)) (b : Int) (k : String) (s : Stat) : List (Int × Bucket) :=
  match held.lookup b with
  | none => setKey b [(k, (newAgg s b).update s)] held                       -- new bucket, new aggregate, update
  | some m =>
    match m.lookup k with
    | some a => setKey b (setKey k (a.update s) m) held                        -- update through the pointer
    | none => setKey b (setKey k ((newAgg s b).update s) m) held               -- new aggregate, update

/-- the report closure under the lock: report pass (every bucket tested with its own clock reading, all aggregates of
an expired bucket sent, the bucket marked), then the delete pass over the marked bucket times -/
def scan (c : Cfg) (nows : List (Int × Int)) (held : List (Int × Bucket)) : List (Int × Bucket) × List Agg :=
  let reported := held.filter fun p => scanExpired c nows p.1
  let marked := reported.map (·.1)
  (held.filter (fun p => !marked.contains p.1), heldAggs reported)

end PgBifrost.Gen.AggLoopSrc
`)
	os.WriteFile(filepath.Join(outDir, "AggLoopSrc.lean"), []byte(b.String()), 0o644)
}
