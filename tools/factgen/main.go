// factgen: regenerate Lean facts (lean/PgBifrost/Gen/*.lean) from the Go source of
// Nextdoor/pg-bifrost on every check run. Each generator handles exactly the syntactic
// subset the fragment uses today and fails loudly on anything else (a failed translation is
// a broken tie between model and code, reported by ./check).
package main

import (
	"encoding/json"
	"flag"
	"fmt"
	"go/ast"
	"go/parser"
	"go/token"
	"go/types"
	"os"
	"path/filepath"
	"sort"
	"strconv"
	"strings"
)

var fset = token.NewFileSet()

// genFail: a generator met source outside its subset. Generators are independent: one that fails leaves its
// old output in place and is reported in factgen_status.json, so that only the properties whose theorems import
// its output are affected (a change to ledger.go must not break the check of the table filter).
type genFail struct{ msg string }

func die(format string, a ...interface{}) {
	panic(genFail{fmt.Sprintf(format, a...)})
}

func parseFile(path string) *ast.File {
	f, err := parser.ParseFile(fset, path, nil, parser.ParseComments)
	if err != nil {
		die("cannot parse %s: %v", path, err)
	}
	return f
}

func findFunc(f *ast.File, name string, recv string) *ast.FuncDecl {
	for _, d := range f.Decls {
		fd, ok := d.(*ast.FuncDecl)
		if !ok || fd.Name.Name != name {
			continue
		}
		if recv == "" && fd.Recv == nil {
			return fd
		}
		if recv != "" && fd.Recv != nil && len(fd.Recv.List) == 1 {
			t := fd.Recv.List[0].Type
			if s, ok := t.(*ast.StarExpr); ok {
				t = s.X
			}
			if id, ok := t.(*ast.Ident); ok && id.Name == recv {
				return fd
			}
		}
	}
	return nil
}

func leanStr(s string) string {
	var b strings.Builder
	b.WriteByte('"')
	for _, r := range s {
		switch r {
		case '"':
			b.WriteString("\\\"")
		case '\\':
			b.WriteString("\\\\")
		case '\n':
			b.WriteString("\\n")
		default:
			b.WriteRune(r)
		}
	}
	b.WriteByte('"')
	return b.String()
}

func src(n ast.Node) string {
	var b strings.Builder
	start := fset.Position(n.Pos())
	end := fset.Position(n.End())
	data, _ := os.ReadFile(start.Filename)
	b.Write(data[start.Offset:end.Offset])
	return b.String()
}

// ---------------------------------------------------------------------------------------
// 1. CLI -> filter fragment of main/main.go (replicateAction)
// ---------------------------------------------------------------------------------------

type cliTr struct {
	params map[string]string // go var -> flag constant (wl -> VAR_NAME_WHITELIST)
	order  []string
	vars   map[string]string // declared mutable vars -> lean type
	out    map[string]string // filterConfig key -> go var
}

func (t *cliTr) expr(e ast.Expr) string {
	switch x := e.(type) {
	case *ast.ParenExpr:
		return "(" + t.expr(x.X) + ")"
	case *ast.BinaryExpr:
		switch x.Op {
		case token.LAND:
			return "(" + t.expr(x.X) + " && " + t.expr(x.Y) + ")"
		case token.LOR:
			return "(" + t.expr(x.X) + " || " + t.expr(x.Y) + ")"
		case token.NEQ:
			return "(" + t.expr(x.X) + " != " + t.expr(x.Y) + ")"
		case token.EQL:
			return "(" + t.expr(x.X) + " == " + t.expr(x.Y) + ")"
		}
	case *ast.UnaryExpr:
		if x.Op == token.NOT {
			return "(!" + t.expr(x.X) + ")"
		}
	case *ast.CallExpr:
		if id, ok := x.Fun.(*ast.Ident); ok && id.Name == "len" && len(x.Args) == 1 {
			return "(" + t.expr(x.Args[0]) + ").length"
		}
	case *ast.BasicLit:
		if x.Kind == token.INT {
			return x.Value
		}
	case *ast.Ident:
		if x.Name == "true" || x.Name == "false" {
			return x.Name
		}
		if _, ok := t.params[x.Name]; ok {
			return x.Name
		}
		if _, ok := t.vars[x.Name]; ok {
			return x.Name
		}
	}
	die("cli fragment: expression outside the translator's subset: %s", src(e))
	return ""
}

func (t *cliTr) stmts(list []ast.Stmt, ind string) string {
	var b strings.Builder
	for _, s := range list {
		b.WriteString(t.stmt(s, ind))
	}
	return b.String()
}

func (t *cliTr) stmt(s ast.Stmt, ind string) string {
	switch x := s.(type) {
	case *ast.AssignStmt:
		if len(x.Lhs) == 1 && len(x.Rhs) == 1 && x.Tok == token.ASSIGN {
			if id, ok := x.Lhs[0].(*ast.Ident); ok {
				if _, ok := t.vars[id.Name]; ok {
					return ind + id.Name + " := " + t.expr(x.Rhs[0]) + "\n"
				}
			}
		}
	case *ast.ReturnStmt:
		// return errors.New("...")
		if len(x.Results) == 1 {
			if c, ok := x.Results[0].(*ast.CallExpr); ok {
				if sel, ok := c.Fun.(*ast.SelectorExpr); ok && sel.Sel.Name == "New" && len(c.Args) == 1 {
					if lit, ok := c.Args[0].(*ast.BasicLit); ok && lit.Kind == token.STRING {
						v, _ := strconv.Unquote(lit.Value)
						return ind + "throw " + leanStr(v) + "\n"
					}
				}
			}
		}
	case *ast.IfStmt:
		if x.Init != nil {
			break
		}
		out := ind + "if " + t.expr(x.Cond) + " then\n" + t.stmts(x.Body.List, ind+"  ")
		switch e := x.Else.(type) {
		case nil:
			out += ind + "else\n" + ind + "  pure ()\n"
		case *ast.BlockStmt:
			out += ind + "else\n" + t.stmts(e.List, ind+"  ")
		case *ast.IfStmt:
			out += ind + "else\n" + t.stmt(e, ind+"  ")
		}
		return out
	}
	die("cli fragment: statement outside the translator's subset: %s", src(s))
	return ""
}

func genCliFilter(repo, outDir string) {
	f := parseFile(filepath.Join(repo, "main", "main.go"))
	fd := findFunc(f, "replicateAction", "")
	if fd == nil {
		die("main.go: func replicateAction not found")
	}
	t := &cliTr{params: map[string]string{}, vars: map[string]string{}, out: map[string]string{}}
	var body []ast.Stmt
	started := false
	for _, s := range fd.Body.List {
		// parameter bindings: x := c.GlobalStringSlice(config.VAR_NAME_...)
		if as, ok := s.(*ast.AssignStmt); ok && as.Tok == token.DEFINE && len(as.Lhs) == 1 && len(as.Rhs) == 1 {
			if call, ok := as.Rhs[0].(*ast.CallExpr); ok {
				if sel, ok := call.Fun.(*ast.SelectorExpr); ok && sel.Sel.Name == "GlobalStringSlice" && len(call.Args) == 1 {
					flagName := src(call.Args[0])
					if strings.Contains(flagName, "WHITELIST") || strings.Contains(flagName, "BLACKLIST") {
						id := as.Lhs[0].(*ast.Ident).Name
						t.params[id] = flagName
						t.order = append(t.order, id)
						started = true
						continue
					}
				}
			}
		}
		if !started {
			continue
		}
		// var declarations of the fragment's mutable variables
		if ds, ok := s.(*ast.DeclStmt); ok {
			gd := ds.Decl.(*ast.GenDecl)
			okAll := true
			for _, sp := range gd.Specs {
				vs := sp.(*ast.ValueSpec)
				ty := src(vs.Type)
				for _, n := range vs.Names {
					switch ty {
					case "[]string":
						t.vars[n.Name] = "List String"
					case "bool":
						t.vars[n.Name] = "Bool"
					default:
						okAll = false
					}
				}
				if len(vs.Values) != 0 {
					okAll = false
				}
			}
			if !okAll {
				die("cli fragment: unsupported declaration %s", src(s))
			}
			continue
		}
		// filterConfig := make(...)  ends the decision part; collect filterConfig["k"] = v
		if as, ok := s.(*ast.AssignStmt); ok && len(as.Lhs) == 1 {
			if id, ok := as.Lhs[0].(*ast.Ident); ok && id.Name == "filterConfig" {
				continue
			}
			if ix, ok := as.Lhs[0].(*ast.IndexExpr); ok {
				if id, ok := ix.X.(*ast.Ident); ok && id.Name == "filterConfig" {
					k, _ := strconv.Unquote(ix.Index.(*ast.BasicLit).Value)
					v, ok := as.Rhs[0].(*ast.Ident)
					if !ok {
						die("cli fragment: filterConfig[%q] is not assigned from a variable: %s", k, src(s))
					}
					t.out[k] = v.Name
					if len(t.out) == 3 {
						break
					}
					continue
				}
			}
		}
		body = append(body, s)
	}
	want := map[string]string{"VAR_NAME_WHITELIST": "", "VAR_NAME_BLACKLIST": "", "VAR_NAME_WHITELIST_REGEX": "", "VAR_NAME_BLACKLIST_REGEX": ""}
	for id, fl := range t.params {
		short := fl[strings.LastIndex(fl, ".")+1:]
		if _, ok := want[short]; !ok {
			die("cli fragment: unexpected flag %s", fl)
		}
		want[short] = id
	}
	for k, v := range want {
		if v == "" {
			die("cli fragment: no variable bound to %s", k)
		}
	}
	for _, k := range []string{"whitelist", "tablelist", "regex"} {
		if _, ok := t.out[k]; !ok {
			die("cli fragment: filterConfig[%q] not found", k)
		}
	}
	var b strings.Builder
	b.WriteString("/-! GENERATED by tools/factgen from main/main.go (replicateAction): the translation of the four\n")
	b.WriteString("filter flags into the filter stage's constructor arguments. Do not edit. -/\n")
	b.WriteString("namespace PgBifrost.Gen.CliFilter\n\n")
	b.WriteString("structure CliOut where\n  whitelist : Bool\n  regex : Bool\n  tablelist : List String\nderiving DecidableEq, Repr\n\n")
	// parameters in canonical order wl bl wlr blr
	ps := []string{want["VAR_NAME_WHITELIST"], want["VAR_NAME_BLACKLIST"], want["VAR_NAME_WHITELIST_REGEX"], want["VAR_NAME_BLACKLIST_REGEX"]}
	b.WriteString("/-- arguments: --whitelist, --blacklist, --whitelist-regex, --blacklist-regex -/\n")
	b.WriteString("def cliFilter (" + strings.Join(ps, " ") + " : List String) : Except String CliOut := do\n")
	names := []string{}
	for n := range t.vars {
		names = append(names, n)
	}
	sort.Strings(names)
	for _, n := range names {
		zero := "[]"
		if t.vars[n] == "Bool" {
			zero = "false"
		}
		b.WriteString("  let mut " + n + " : " + t.vars[n] + " := " + zero + "\n")
	}
	b.WriteString(t.stmts(body, "  "))
	b.WriteString("  return { whitelist := " + t.out["whitelist"] + ", regex := " + t.out["regex"] + ", tablelist := " + t.out["tablelist"] + " }\n\n")
	b.WriteString("end PgBifrost.Gen.CliFilter\n")
	os.WriteFile(filepath.Join(outDir, "CliFilter.lean"), []byte(b.String()), 0o644)
}

// ---------------------------------------------------------------------------------------
// 2. constants and name tables
// ---------------------------------------------------------------------------------------

func constInt(f *ast.File, name string) string {
	for _, d := range f.Decls {
		gd, ok := d.(*ast.GenDecl)
		if !ok || gd.Tok != token.CONST {
			continue
		}
		for _, sp := range gd.Specs {
			vs := sp.(*ast.ValueSpec)
			for i, n := range vs.Names {
				if n.Name == name && i < len(vs.Values) {
					tv, err := types.Eval(fset, nil, token.NoPos, src(vs.Values[i]))
					if err != nil || tv.Value == nil {
						die("constant %s: cannot evaluate %s", name, src(vs.Values[i]))
					}
					return tv.Value.ExactString()
				}
			}
		}
	}
	die("constant %s not found", name)
	return ""
}

func constStr(f *ast.File, name string) string {
	for _, d := range f.Decls {
		gd, ok := d.(*ast.GenDecl)
		if !ok || gd.Tok != token.CONST {
			continue
		}
		for _, sp := range gd.Specs {
			vs := sp.(*ast.ValueSpec)
			for i, n := range vs.Names {
				if n.Name == name && i < len(vs.Values) {
					if lit, ok := vs.Values[i].(*ast.BasicLit); ok && lit.Kind == token.STRING {
						v, _ := strconv.Unquote(lit.Value)
						return v
					}
				}
			}
		}
	}
	die("string constant %s not found", name)
	return ""
}

// iotaConsts returns the names of the const block whose first value uses iota and whose
// declared type is typeName, in order.
func iotaConsts(f *ast.File, typeName string) []string {
	for _, d := range f.Decls {
		gd, ok := d.(*ast.GenDecl)
		if !ok || gd.Tok != token.CONST || len(gd.Specs) == 0 {
			continue
		}
		first := gd.Specs[0].(*ast.ValueSpec)
		if first.Type == nil || src(first.Type) != typeName || len(first.Values) != 1 || src(first.Values[0]) != "iota" {
			continue
		}
		out := []string{}
		for _, sp := range gd.Specs {
			vs := sp.(*ast.ValueSpec)
			if sp != gd.Specs[0] && (vs.Type != nil || len(vs.Values) != 0) {
				die("iota block of %s has an explicit value: %s", typeName, src(vs))
			}
			for _, n := range vs.Names {
				out = append(out, n.Name)
			}
		}
		return out
	}
	die("iota const block of type %s not found", typeName)
	return nil
}

// mapLit returns the (string key, identifier value) pairs of the map literal assigned to name.
func mapLit(f *ast.File, name string) [][2]string {
	var res [][2]string
	found := false
	ast.Inspect(f, func(n ast.Node) bool {
		vs, ok := n.(*ast.ValueSpec)
		if !ok {
			return true
		}
		for i, id := range vs.Names {
			if id.Name != name || i >= len(vs.Values) {
				continue
			}
			cl, ok := vs.Values[i].(*ast.CompositeLit)
			if !ok {
				die("%s is not a composite literal", name)
			}
			found = true
			for _, e := range cl.Elts {
				kv := e.(*ast.KeyValueExpr)
				k, err := strconv.Unquote(src(kv.Key))
				if err != nil {
					die("%s: non-literal key %s", name, src(kv.Key))
				}
				res = append(res, [2]string{k, src(kv.Value)})
			}
		}
		return true
	})
	if !found {
		die("map literal %s not found", name)
	}
	sort.Slice(res, func(i, j int) bool { return res[i][0] < res[j][0] })
	return res
}

func leanPairs(p [][2]string) string {
	parts := []string{}
	for _, kv := range p {
		parts = append(parts, "("+leanStr(kv[0])+", "+leanStr(kv[1])+")")
	}
	return "[" + strings.Join(parts, ", ") + "]"
}

func leanStrs(p []string) string {
	parts := []string{}
	for _, s := range p {
		parts = append(parts, leanStr(s))
	}
	return "[" + strings.Join(parts, ", ") + "]"
}

func genConsts(repo, outDir string) {
	kb := parseFile(filepath.Join(repo, "transport/transporters/kinesis/batch/batch.go"))
	tr := parseFile(filepath.Join(repo, "transport/interfaces.go"))
	pa := parseFile(filepath.Join(repo, "partitioner/partitioner.go"))
	ba := parseFile(filepath.Join(repo, "transport/batcher/batcher.go"))
	ku := parseFile(filepath.Join(repo, "transport/transporters/kafka/utils/kafka.go"))
	kiu := parseFile(filepath.Join(repo, "transport/transporters/kinesis/utils/kinesis.go"))
	var b strings.Builder
	b.WriteString("/-! GENERATED by tools/factgen: constants and name tables read from the Go source. Do not edit. -/\n")
	b.WriteString("namespace PgBifrost.Gen.Consts\n\n")
	b.WriteString("def kinesisMaxRecords : Nat := " + constInt(kb, "MAX_RECORDS") + "\n")
	b.WriteString("def kinesisMaxBatchBytes : Nat := " + constInt(kb, "MAX_BATCH_SIZE_BYTES") + "\n")
	b.WriteString("def kinesisMaxRecordBytes : Nat := " + constInt(kb, "MAX_RECORD_SIZE_BYTES") + "\n\n")
	for _, n := range []string{"ERR_MSG_TOOBIG", "ERR_FULL", "ERR_CANT_FIT", "ERR_MSG_INVALID"} {
		b.WriteString("def " + strings.ToLower(n[:1]) + n[1:] + " : String := " + leanStr(constStr(tr, n)) + "\n")
	}
	b.WriteString("\n/-- partitioner: iota order of PartitionMethod and the name table -/\n")
	b.WriteString("def partitionMethods : List String := " + leanStrs(iotaConsts(pa, "PartitionMethod")) + "\n")
	b.WriteString("def nameToPartitionMethod : List (String × String) := " + leanPairs(mapLit(pa, "nameToPartitionMethod")) + "\n\n")
	b.WriteString("def routingMethods : List String := " + leanStrs(iotaConsts(ba, "BatchRouting")) + "\n")
	b.WriteString("def nameToRoutingMethod : List (String × String) := " + leanPairs(mapLit(ba, "nameToRoutingMethod")) + "\n\n")
	b.WriteString("def kafkaPartitionMethods : List String := " + leanStrs(iotaConsts(ku, "KafkaPartitionMethod")) + "\n")
	b.WriteString("def kafkaNameToPartitionMethod : List (String × String) := " + leanPairs(mapLit(ku, "NameToPartitionMethod")) + "\n\n")
	b.WriteString("def kinesisPartitionMethods : List String := " + leanStrs(iotaConsts(kiu, "KinesisPartitionMethod")) + "\n\n")
	// Kinesis factory decision: if partMethod == partitioner.PART_METHOD_NONE { WALSTART } else { BATCH }
	kf := parseFile(filepath.Join(repo, "transport/transporters/kinesis/factory.go"))
	fd := findFunc(kf, "NewBatchFactory", "")
	if fd == nil {
		die("kinesis/factory.go: NewBatchFactory not found")
	}
	var cond, thenV, elseV string
	ast.Inspect(fd, func(n ast.Node) bool {
		is, ok := n.(*ast.IfStmt)
		if !ok || is.Else == nil {
			return true
		}
		be, ok := is.Cond.(*ast.BinaryExpr)
		if !ok || be.Op != token.EQL {
			return true
		}
		if !strings.Contains(src(be.Y), "PART_METHOD") {
			return true
		}
		getAssign := func(blk *ast.BlockStmt) string {
			if len(blk.List) != 1 {
				return ""
			}
			as, ok := blk.List[0].(*ast.AssignStmt)
			if !ok || len(as.Rhs) != 1 {
				return ""
			}
			return src(as.Rhs[0])
		}
		eb, ok := is.Else.(*ast.BlockStmt)
		if !ok {
			return true
		}
		cond = src(be.Y)
		thenV = getAssign(is.Body)
		elseV = getAssign(eb)
		return false
	})
	if cond == "" || thenV == "" || elseV == "" {
		die("kinesis/factory.go: partition-method decision not in the expected if/else form")
	}
	strip := func(s string) string { return s[strings.LastIndex(s, ".")+1:] }
	b.WriteString("/-- kinesis/factory.go NewBatchFactory: `if partMethod == <cond> then <then> else <else>` -/\n")
	b.WriteString("def kinesisFactoryDecision : String × String × String := (" + leanStr(strip(cond)) + ", " + leanStr(strip(thenV)) + ", " + leanStr(strip(elseV)) + ")\n\n")
	b.WriteString("end PgBifrost.Gen.Consts\n")
	os.WriteFile(filepath.Join(outDir, "Consts.lean"), []byte(b.String()), 0o644)
}

// ---------------------------------------------------------------------------------------
// 3. table of statistics the pipeline emits (call sites of stats.NewStatCount/NewStatHistogram)
// ---------------------------------------------------------------------------------------

func genStats(repo, outDir string) {
	type ent struct{ comp, name, typ, unit string }
	set := map[ent]bool{}
	filepath.Walk(repo, func(path string, info os.FileInfo, err error) error {
		if err != nil {
			return nil
		}
		if info.IsDir() {
			n := info.Name()
			if n == "vendor" || n == "mocks" || n == "itests" || strings.HasPrefix(n, ".") {
				return filepath.SkipDir
			}
			return nil
		}
		if !strings.HasSuffix(path, ".go") || strings.HasSuffix(path, "_test.go") {
			return nil
		}
		f := parseFile(path)
		ast.Inspect(f, func(n ast.Node) bool {
			c, ok := n.(*ast.CallExpr)
			if !ok {
				return true
			}
			sel, ok := c.Fun.(*ast.SelectorExpr)
			if !ok {
				return true
			}
			if sel.Sel.Name != "NewStatCount" && sel.Sel.Name != "NewStatHistogram" {
				return true
			}
			if strings.HasSuffix(path, "stats/stat.go") {
				return true
			}
			lit := func(e ast.Expr) (string, bool) {
				bl, ok := e.(*ast.BasicLit)
				if !ok || bl.Kind != token.STRING {
					return "", false
				}
				v, _ := strconv.Unquote(bl.Value)
				return v, true
			}
			comp, ok1 := lit(c.Args[0])
			name, ok2 := lit(c.Args[1])
			if !ok1 || !ok2 {
				die("%s: statistic with non-literal component/name: %s", path, src(c))
			}
			if sel.Sel.Name == "NewStatCount" {
				set[ent{comp, name, "count", "count"}] = true
			} else {
				unit, ok := lit(c.Args[4])
				if !ok {
					die("%s: histogram with non-literal unit: %s", path, src(c))
				}
				set[ent{comp, name, "histogram", unit}] = true
			}
			return true
		})
		return nil
	})
	list := []ent{}
	for e := range set {
		list = append(list, e)
	}
	sort.Slice(list, func(i, j int) bool {
		a, b := list[i], list[j]
		return a.comp+"\x00"+a.name+"\x00"+a.typ+"\x00"+a.unit < b.comp+"\x00"+b.name+"\x00"+b.typ+"\x00"+b.unit
	})
	stf := parseFile(filepath.Join(repo, "stats/stat.go"))
	var b strings.Builder
	b.WriteString("/-! GENERATED by tools/factgen: every statistic identity (component, name, type, unit) the pipeline\n")
	b.WriteString("emits, from all call sites of stats.NewStatCount / stats.NewStatHistogram. Do not edit. -/\n")
	b.WriteString("namespace PgBifrost.Gen.Stats\n\n")
	b.WriteString("/-- string values of the StatType constants -/\n")
	b.WriteString("def statTypeCount : String := " + leanStr(constStr(stf, "Count")) + "\n")
	b.WriteString("def statTypeHistogram : String := " + leanStr(constStr(stf, "Histogram")) + "\n\n")
	b.WriteString("def emitted : List (String × String × String × String) := [\n")
	for i, e := range list {
		sep := ","
		if i == len(list)-1 {
			sep = ""
		}
		b.WriteString("  (" + leanStr(e.comp) + ", " + leanStr(e.name) + ", " + leanStr(e.typ) + ", " + leanStr(e.unit) + ")" + sep + "\n")
	}
	b.WriteString("]\n\nend PgBifrost.Gen.Stats\n")
	os.WriteFile(filepath.Join(outDir, "Stats.lean"), []byte(b.String()), 0o644)
}

func main() {
	repo := flag.String("repo", "/repo", "repository root")
	out := flag.String("out", "", "output directory for Gen/*.lean")
	flag.Parse()
	if *out == "" {
		fmt.Fprintln(os.Stderr, "factgen: -out required")
		os.Exit(2)
	}
	os.MkdirAll(*out, 0o755)
	gens := []struct {
		name  string
		files []string
		run   func(repo, out string)
	}{
		{"cliFilter", []string{"CliFilter.lean"}, genCliFilter},
		{"consts", []string{"Consts.lean"}, genConsts},
		{"stats", []string{"Stats.lean"}, genStats},
		{"batcherSwitch", []string{"BatcherSwitch.lean"}, genBatcherSwitch},
		{"stages", []string{"Stages.lean"}, genStages},
		{"clientSites", []string{"ClientSites.lean"}, genClientSites},
		{"retry", []string{"Retry.lean", "zz_gen_policies.go"}, genRetry},
		{"wiring", []string{"Wiring.lean"}, genWiring},
		{"conds", []string{"Conds.lean"}, genConds},
		{"kinesisAdd", []string{"KinesisAdd.lean"}, genKinesisAdd},
		{"otherAdds", []string{"OtherAdds.lean"}, genOtherAdds},
		{"ledgerSrc", []string{"LedgerSrc.lean"}, genLedgerSrc},
		{"emitSrc", []string{"EmitSrc.lean"}, genEmitSrc},
		{"progressSrc", []string{"ProgressSrc.lean"}, genProgressSrc},
		{"switches", []string{"Switches.lean"}, genSwitches},
		{"batcherSrc", []string{"BatcherSrc.lean"}, genBatcherSrc},
		{"sendBatchSrc", []string{"SendBatchSrc.lean"}, genSendBatchSrc},
		{"filterSrc", []string{"FilterSrc.lean"}, genFilterSrc},
		{"marshalSrc", []string{"MarshalSrc.lean"}, genMarshalSrc},
		{"kinesisSrc", []string{"KinesisSrc.lean"}, genKinesisSrc},
		{"frameSrc", []string{"FrameSrc.lean"}, genFrameSrc},
		{"aggSrc", []string{"AggSrc.lean"}, genAggSrc},
		{"s3Src", []string{"S3Src.lean"}, genS3Src},
		{"kafkaSrc", []string{"KafkaSrc.lean"}, genKafkaSrc},
		{"rabbitSrc", []string{"RabbitSrc.lean"}, genRabbitSrc},
		{"kinesisLoopSrc", []string{"KinesisLoopSrc.lean"}, genKinesisLoopSrc},
		{"workerLoops", []string{"WorkerLoops.lean", "S3WorkerSrc.lean"}, genWorkerLoops},
		{"parserSrc", []string{"ParserSrc.lean"}, genParserSrc},
		{"marshalEntrySrc", []string{"MarshalEntrySrc.lean"}, genMarshalEntrySrc},
		{"clientSrc", []string{"ClientSrc.lean"}, genClientSrc},
		{"connSrc", []string{"ConnSrc.lean"}, genConnSrc},
		{"txnsSrc", []string{"TxnsSrc.lean"}, genTxnsSrc},
		{"trackerSrc", []string{"TrackerSrc.lean"}, genTrackerSrc},
		{"aggLoopSrc", []string{"AggLoopSrc.lean"}, genAggLoopSrc},
		{"mainOpts", []string{"MainOpts.lean"}, genMainOpts},
		{"messageSrc", []string{"MessageSrc.lean"}, genMessageSrc},
		{"factoryOpts", []string{"FactoryOpts.lean"}, genFactoryOpts},
		{"stdoutSrc", []string{"StdoutSrc.lean"}, genStdoutSrc},
		{"timeSrc", []string{"TimeSrc.lean"}, genTimeSrc},
		{"posLits", []string{"PosLits.lean"}, genPosLits},
		{"connWrapSrc", []string{"ConnWrapSrc.lean"}, genConnWrapSrc},
		{"tickSrc", []string{"TickSrc.lean"}, genTickSrc},
	}
	status := map[string]interface{}{}
	failed := 0
	for _, g := range gens {
		msg := func() (m string) {
			defer func() {
				if r := recover(); r != nil {
					if gf, ok := r.(genFail); ok {
						m = gf.msg
						return
					}
					m = fmt.Sprintf("translator crashed: %v", r)
				}
			}()
			g.run(*repo, *out)
			return ""
		}()
		if msg != "" {
			failed++
			for _, f := range g.files {
				os.Remove(filepath.Join(*out, f)) // no partial output
			}
			fmt.Fprintf(os.Stderr, "factgen: %s FAILED: %s\n", g.name, msg)
		}
		status[g.name] = map[string]interface{}{"files": g.files, "error": msg}
	}
	js, _ := json.MarshalIndent(status, "", " ")
	os.WriteFile(filepath.Join(*out, "factgen_status.json"), js, 0o644)
	if failed > 0 {
		fmt.Printf("factgen: %d of %d generators failed\n", failed, len(gens))
		os.Exit(3)
	}
	fmt.Println("factgen: ok")
}
