package main

// 23. RabbitMQ worker: `waitForConfirmations` and the `operation` closure of `transportWithRetry` translated
// statement by statement into Gen/RabbitSrc.lean, as programs over the model's world (state, adversary script,
// event log). The expressions that decide the accounting (loop condition, `remaining`, the desired count, which
// value the confirmation counter takes, how the batch is cut for the retry) are translated from the source; the
// order of log points (where the adversary may act), channel resets and returns follows the source.
// Theorem `rabbit_attempt_as_in_source` (C13): the model's `attempt` (mode `fixed`) is this program.

import (
	"go/ast"
	"os"
	"path/filepath"
	"strings"
)

func genRabbitSrc(repo, outDir string) {
	f := parseFile(filepath.Join(repo, "transport/transporters/rabbitmq/transporter/transporter.go"))
	wf := findFunc(f, "waitForConfirmations", "RabbitMQTransporter")
	tw := findFunc(f, "transportWithRetry", "RabbitMQTransporter")
	if wf == nil || tw == nil {
		die("rabbit: waitForConfirmations / transportWithRetry not found")
	}
	tr := &condTr{what: "rabbit", vocab: map[string]string{
		"t.channelConfirms":     "w.st.confirms",
		"desiredCount":          "desired",
		"messageCount":          "n",
		"remaining":             "remaining",
		"confirm.Ack()":         "c.ack",
		"confirm.DeliveryTag()": "c.tag",
		"len(messagesSlice)":    "msgs.length",
	}, isInt: map[string]bool{"w.st.confirms": true, "desired": true, "n": true, "remaining": true, "c.tag": true, "msgs.length": true}}
	num := func(e ast.Expr) string {
		s, n := tr.expr(e)
		if !n {
			die("rabbit: not a number: %s", src(e))
		}
		return s
	}
	// ---- waitForConfirmations ----
	var desiredExpr, loopCond, remExpr, nackCond, tagExpr string
	sawWaitLog, retOK := false, false
	var loop *ast.ForStmt
	for _, s := range wf.Body.List {
		txt := squash(src(s))
		switch x := s.(type) {
		case *ast.AssignStmt:
			if len(x.Lhs) == 1 && squash(src(x.Lhs[0])) == "desiredCount" && loop == nil {
				desiredExpr = num(x.Rhs[0])
			} else {
				die("rabbit: waitForConfirmations: assignment outside the subset: %s", txt)
			}
		case *ast.DeclStmt:
			if txt != "var remaining uint64" {
				die("rabbit: waitForConfirmations: declaration outside the subset: %s", txt)
			}
		case *ast.ExprStmt:
			if strings.HasPrefix(txt, "t.log.") && strings.Contains(txt, "Waiting for desired confirms count") && loop == nil && desiredExpr != "" {
				sawWaitLog = true
			} else {
				die("rabbit: waitForConfirmations: statement outside the subset: %s", txt)
			}
		case *ast.ForStmt:
			if x.Init != nil || x.Post != nil || x.Cond == nil || loop != nil {
				die("rabbit: waitForConfirmations: loop header outside the subset")
			}
			loop = x
			loopCond = tr.boolExpr(x.Cond)
		case *ast.ReturnStmt:
			if txt != "return remaining, nil" || loop == nil {
				die("rabbit: waitForConfirmations: unexpected return %s", txt)
			}
			retOK = true
		default:
			die("rabbit: waitForConfirmations: statement outside the subset: %s", txt)
		}
	}
	if loop == nil || !sawWaitLog || !retOK || len(loop.Body.List) != 2 {
		die("rabbit: waitForConfirmations does not have the expected parts")
	}
	if as, ok := loop.Body.List[0].(*ast.AssignStmt); ok && squash(src(as.Lhs[0])) == "remaining" {
		remExpr = num(as.Rhs[0])
	} else {
		die("rabbit: the loop does not start with `remaining = …`")
	}
	sel, ok := loop.Body.List[1].(*ast.SelectStmt)
	if !ok {
		die("rabbit: the loop has no select")
	}
	var confirmBody []string
	closedCases := 0
	for _, cl := range sel.Body.List {
		cc := cl.(*ast.CommClause)
		if cc.Comm == nil {
			die("rabbit: the wait select has a default case (busy loop)")
		}
		switch squash(src(cc.Comm)) {
		case "confirm := <-ch.publishNotify":
			for _, b := range cc.Body {
				bt := squash(src(b))
				switch y := b.(type) {
				case *ast.ExprStmt:
					if strings.HasPrefix(bt, "t.log.") && strings.Contains(bt, "received confirmation") {
						confirmBody = append(confirmBody, "hook")
					} else {
						die("rabbit: confirmation case: statement outside the subset: %s", bt)
					}
				case *ast.IfStmt:
					if y.Else != nil || y.Init != nil {
						die("rabbit: confirmation case: if outside the subset")
					}
					last := squash(src(y.Body.List[len(y.Body.List)-1]))
					if !strings.HasPrefix(last, "return remaining, errors.New(") {
						die("rabbit: confirmation case: the test does not return `remaining` and an error: %s", last)
					}
					nackCond = tr.boolExpr(y.Cond)
					confirmBody = append(confirmBody, "nack")
				case *ast.AssignStmt:
					if len(y.Lhs) != 1 || squash(src(y.Lhs[0])) != "t.channelConfirms" || y.Tok.String() != "=" {
						die("rabbit: confirmation case: assignment outside the subset: %s", bt)
					}
					tagExpr = num(y.Rhs[0])
					confirmBody = append(confirmBody, "assign")
				default:
					die("rabbit: confirmation case: statement outside the subset: %s", bt)
				}
			}
		case "<-ctx.Done()", "<-ch.closeNotify":
			if len(cc.Body) != 1 || !strings.HasPrefix(squash(src(cc.Body[0])), "return remaining, errors.New(") {
				die("rabbit: wait: the %s case does not return `remaining` and an error", squash(src(cc.Comm)))
			}
			closedCases++
		default:
			die("rabbit: wait: select case outside the subset: %s", squash(src(cc.Comm)))
		}
	}
	if closedCases != 2 || nackCond == "" || tagExpr == "" {
		die("rabbit: wait select does not have the expected cases")
	}
	// ---- operation closure ----
	var op *ast.FuncLit
	retried := false
	for _, s := range tw.Body.List {
		if as, ok := s.(*ast.AssignStmt); ok && len(as.Lhs) == 1 && squash(src(as.Lhs[0])) == "operation" {
			op, _ = as.Rhs[0].(*ast.FuncLit)
		}
		if squash(src(s)) == "err := backoff.Retry(operation, t.retryPolicy)" {
			retried = true
		}
	}
	if op == nil || !retried {
		die("rabbit: operation closure / backoff.Retry(operation, t.retryPolicy) not found")
	}
	// statements of an error branch / the tail → program steps
	steps := func(list []ast.Stmt, logMark string) []string {
		var out []string
		for _, b := range list {
			bt := squash(src(b))
			switch {
			case strings.HasPrefix(bt, "t.log.") && strings.Contains(bt, logMark):
				out = append(out, "emit .fail", "hook")
			case strings.HasPrefix(bt, "t.log."):
			case strings.HasPrefix(bt, "t.statsChan <- stats.NewStatCount(\"rabbitmq_transport\", \"failure\", 1,"):
			case bt == "t.resetChannel(ch)":
				out = append(out, "doReset")
			case strings.HasPrefix(bt, "err = fmt.Errorf("):
			case bt == "return err":
				out = append(out, "return")
			default:
				die("rabbit: operation: statement outside the subset: %s", bt)
			}
		}
		if len(out) == 0 || out[len(out)-1] != "return" {
			die("rabbit: operation: an error path does not end with `return err`")
		}
		return out[:len(out)-1]
	}
	phase := 0 // 0 select, 1 setup, 2 setup err, 3 send, 4 send err, 5 wait, 6 ok test, 7 tail
	var sendFail, waitFail []string
	var cutCond, cutExpr, waitArg string
	var tail []ast.Stmt
	for _, s := range op.Body.List {
		txt := squash(src(s))
		if phase == 7 {
			if ifs, ok := s.(*ast.IfStmt); ok {
				if cutCond != "" || ifs.Else != nil || len(ifs.Body.List) != 1 {
					die("rabbit: operation: unexpected if in the tail: %s", squash(src(ifs.Cond)))
				}
				as, ok := ifs.Body.List[0].(*ast.AssignStmt)
				if !ok || squash(src(as.Lhs[0])) != "messagesSlice" {
					die("rabbit: operation: the tail's if does not cut messagesSlice")
				}
				sl, ok := as.Rhs[0].(*ast.SliceExpr)
				if !ok || squash(src(sl.X)) != "messagesSlice" || sl.High != nil || sl.Low == nil {
					die("rabbit: operation: cut outside the subset: %s", squash(src(as.Rhs[0])))
				}
				if len(tail) != 0 {
					die("rabbit: operation: the cut comes after other tail statements")
				}
				cutCond = tr.boolExpr(ifs.Cond)
				cutExpr = num(sl.Low)
				continue
			}
			tail = append(tail, s)
			continue
		}
		switch x := s.(type) {
		case *ast.SelectStmt:
			if phase != 0 {
				die("rabbit: operation: select after the start")
			}
			phase = 1
		case *ast.AssignStmt:
			switch {
			case txt == "ch, err := t.setupChannel(ctx)" && phase == 1:
				phase = 2
			case txt == "err = t.sendMessages(ctx, ch, messagesSlice)" && phase == 3:
				phase = 4
			case strings.HasPrefix(txt, "remaining, err := t.waitForConfirmations(ctx, ch, ") && phase == 5:
				call := x.Rhs[0].(*ast.CallExpr)
				waitArg = num(call.Args[2])
				phase = 6
			default:
				die("rabbit: operation: assignment outside the subset (phase %d): %s", phase, txt)
			}
		case *ast.IfStmt:
			c := squash(src(x.Cond))
			switch {
			case c == "err != nil" && phase == 2:
				if st := steps(x.Body.List, "\x00"); len(st) != 0 {
					die("rabbit: operation: the setup error path does more than return")
				}
				phase = 3
			case c == "err != nil" && phase == 4:
				sendFail = steps(x.Body.List, "Could not transport messages")
				phase = 5
			case c == "err == nil" && phase == 6:
				last := squash(src(x.Body.List[len(x.Body.List)-1]))
				if last != "return nil" {
					die("rabbit: operation: success does not return nil")
				}
				phase = 7
			default:
				die("rabbit: operation: if outside the subset (phase %d): %s", phase, c)
			}
		default:
			die("rabbit: operation: statement outside the subset: %s", txt)
		}
	}
	if phase != 7 || cutCond == "" {
		die("rabbit: operation does not have the expected parts")
	}
	waitFail = steps(tail, "err %s")

	var b strings.Builder
	b.WriteString("import PgBifrost.Model.RabbitConfirm\n/-! GENERATED by tools/factgen from the RabbitMQ transporter (waitForConfirmations, the operation closure). Do not edit. -/\n")
	b.WriteString("namespace PgBifrost.Gen.RabbitSrc\nopen PgBifrost.RabbitConfirm\n\n")
	b.WriteString(`/-- the model's world: worker+broker state, the adversary's script, the event log so far -/
structure W where
  st : St
  toks : List Tok
  evs : List Ev

abbrev M := StateM W

def emit (e : Ev) : M Unit := modify fun w => { w with evs := w.evs ++ [e] }
/-- a log point: the adversary's next token acts (P2, P3, P5, P6 of the model) -/
def hook : M Unit := modify fun w =>
  let tk := popTok w.toks
  let hk := hookTok w.st tk.1
  ⟨hk.1, tk.2, w.evs ++ hk.2⟩
def doSetup : M Bool := fun w => let su := setup w.st; (su.2.2, ⟨su.1, w.toks, w.evs ++ su.2.1⟩)
def doSend (msgs : List Nat) : M SendRes := fun w =>
  let sd := send .fixed w.st msgs w.toks
  (sd.2.2.2, ⟨sd.1, sd.2.1, w.evs ++ sd.2.2.1⟩)
def doReset : M Unit := modify fun w => let rs := resetChannel w.st; ⟨rs.1, w.toks, w.evs ++ rs.2⟩

/-- the select of the wait loop: a confirmation, a closed channel / shutdown, or nothing yet -/
inductive Recv
  | confirm (c : Conf)
  | closed
  | nothing
def recv : M Recv := fun w =>
  match w.st.chan.pending with
  | [] => (if w.st.chan.closed then .closed else .nothing, w)
  | c :: rest =>
    (.confirm c, { w with st := { w.st with chan := { w.st.chan with pending := rest } },
                          evs := w.evs ++ [.conf w.st.chan.id c.tag c.ack] })

`)
	b.WriteString("/-- the loop of `waitForConfirmations` (`f` bounds the iterations) -/\ndef waitLoop (desired : Nat) : Nat → M WaitRes\n  | 0 => pure .starve\n  | f + 1 => do\n")
	b.WriteString("    let w ← get\n    if " + loopCond + " then\n      let remaining := " + remExpr + "\n      match ← recv with\n      | .confirm c =>\n")
	for _, st := range confirmBody {
		switch st {
		case "hook":
			b.WriteString("        hook\n")
		case "nack":
			b.WriteString("        if " + nackCond + " then return .fail remaining\n")
		case "assign":
			b.WriteString("        modify fun w => { w with st := { w.st with confirms := " + tagExpr + " } }\n")
		}
	}
	b.WriteString("        waitLoop desired f\n      | .closed => return .fail remaining\n      | .nothing => return .starve\n    else return .ok\n\n")
	b.WriteString("/-- `waitForConfirmations(ctx, ch, n)` -/\ndef waitForConfirmations (n : Nat) : M WaitRes := do\n  let w ← get\n  let desired := " + desiredExpr + "\n  emit .wait\n  hook\n  let w ← get\n  waitLoop desired (w.st.chan.pending.length + 1)\n\n")
	b.WriteString("/-- the `operation` closure of `transportWithRetry` on the batch's remaining messages -/\ndef attempt (msgs : List Nat) : M AttRes := do\n")
	b.WriteString("  if !(← doSetup) then return .retry msgs\n  match ← doSend msgs with\n  | .panic => return .panic\n  | .fail =>\n")
	for _, st := range sendFail {
		b.WriteString("    " + st + "\n")
	}
	b.WriteString("    return .retry msgs\n  | .done =>\n    match ← waitForConfirmations (" + waitArg + ") with\n    | .ok => return .ok\n    | .hang => return .hang\n    | .starve => return .starve\n    | .fail remaining =>\n")
	b.WriteString("      if remaining > msgs.length then return .panic\n")
	b.WriteString("      let msgs' := if " + cutCond + " then msgs.drop (" + cutExpr + ") else msgs\n")
	for _, st := range waitFail {
		b.WriteString("      " + st + "\n")
	}
	b.WriteString("      return .retry msgs'\n\nend PgBifrost.Gen.RabbitSrc\n")
	os.WriteFile(filepath.Join(outDir, "RabbitSrc.lean"), []byte(b.String()), 0o644)
}
