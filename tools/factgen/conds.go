package main

// 9. decision conditions translated from the source: Gen/Conds.lean
//   * handleTicker (transport/batcher/batcher.go): the conditions under which the first loop marks a batch for
//     flushing, and the start / stop conditions of the memory-pressure loop;
//   * emitProgress (transport/progress/progress_tracker.go): the condition under which a ledger entry is released.
// The translator knows a fixed vocabulary of leaf expressions and the operators && || ! == != < <= > >= + -;
// anything else is outside its subset and fails loudly (a broken tie). The theorems
// `tick_decision_as_in_source` (C16) and `release_condition_as_in_source` (C01) equate these regenerated
// definitions with the models'.

import (
	"go/ast"
	"go/token"
	"os"
	"path/filepath"
	"strings"
)

type condTr struct {
	what  string
	vocab map[string]string // source text -> Lean term
	isInt map[string]bool   // Lean leaf is a number (otherwise Bool)
}

// expr translates to a Lean term; second result: true when the term is a number
func (t *condTr) expr(e ast.Expr) (string, bool) {
	if v, ok := t.vocab[src(e)]; ok {
		return v, t.isInt[v]
	}
	switch x := e.(type) {
	case *ast.ParenExpr:
		return t.expr(x.X)
	case *ast.BasicLit:
		if x.Kind == token.INT {
			return x.Value, true
		}
	case *ast.CallExpr:
		// numeric conversions int64(x) / uint64(x)
		if id, ok := x.Fun.(*ast.Ident); ok && (id.Name == "int64" || id.Name == "uint64" || id.Name == "int") && len(x.Args) == 1 {
			return t.expr(x.Args[0])
		}
	case *ast.UnaryExpr:
		if x.Op == token.NOT {
			a, n := t.expr(x.X)
			if !n {
				return "(!" + a + ")", false
			}
		}
	case *ast.BinaryExpr:
		a, an := t.expr(x.X)
		b, bn := t.expr(x.Y)
		switch x.Op {
		case token.LAND, token.LOR:
			if !an && !bn {
				op := "&&"
				if x.Op == token.LOR {
					op = "||"
				}
				return "(" + a + " " + op + " " + b + ")", false
			}
		case token.ADD, token.SUB:
			if an && bn {
				return "(" + a + " " + x.Op.String() + " " + b + ")", true
			}
		case token.LSS, token.LEQ, token.GTR, token.GEQ, token.EQL, token.NEQ:
			if an && bn {
				op := map[token.Token]string{token.LSS: "<", token.LEQ: "≤", token.GTR: ">", token.GEQ: "≥", token.EQL: "=", token.NEQ: "≠"}[x.Op]
				return "decide (" + a + " " + op + " " + b + ")", false
			}
		}
	}
	die("%s: expression outside the translator's subset: %s", t.what, src(e))
	return "", false
}

func (t *condTr) boolExpr(e ast.Expr) string {
	s, n := t.expr(e)
	if n {
		die("%s: condition is not boolean: %s", t.what, src(e))
	}
	return s
}

func assignsTrue(body *ast.BlockStmt, name string) bool {
	for _, s := range body.List {
		if a, ok := s.(*ast.AssignStmt); ok && len(a.Lhs) == 1 && len(a.Rhs) == 1 && a.Tok == token.ASSIGN {
			if id, ok := a.Lhs[0].(*ast.Ident); ok && id.Name == name {
				if v, ok := a.Rhs[0].(*ast.Ident); ok && v.Name == "true" {
					return true
				}
			}
		}
	}
	return false
}

func isLogCall(s ast.Stmt) bool {
	es, ok := s.(*ast.ExprStmt)
	if !ok {
		return false
	}
	c, ok := es.X.(*ast.CallExpr)
	if !ok {
		return false
	}
	return strings.HasPrefix(src(c.Fun), "log.") || strings.HasPrefix(src(c.Fun), "localLog.")
}

func genConds(repo, outDir string) {
	// ---- handleTicker
	bf := parseFile(filepath.Join(repo, "transport/batcher/batcher.go"))
	ht := findFunc(bf, "handleTicker", "Batcher")
	if ht == nil {
		die("conds: Batcher.handleTicker not found")
	}
	tick := &condTr{what: "handleTicker", vocab: map[string]string{
		"curBatch.IsEmpty()": "isEmpty", "curBatch.IsFull()": "isFull",
		"curBatch.ModifyTime()": "mtime", "curBatch.CreateTime()": "ctime",
		"time.Now().UnixNano()":               "now",
		"b.flushBatchUpdateAge.Nanoseconds()": "updAge", "b.flushBatchMaxAge.Nanoseconds()": "maxAge",
		"totalMemory": "total", "b.batcherMemorySoftLimit": "limit",
	}, isInt: map[string]bool{"mtime": true, "ctime": true, "now": true, "updAge": true, "maxAge": true, "total": true, "limit": true}}
	var flushConds []string
	var rng *ast.RangeStmt
	for _, s := range ht.Body.List {
		if r, ok := s.(*ast.RangeStmt); ok && src(r.X) == "b.batches" {
			rng = r
			break
		}
	}
	if rng == nil {
		die("conds: handleTicker: `for … range b.batches` not found")
	}
	sawFinal := false
	for _, s := range rng.Body.List {
		switch x := s.(type) {
		case *ast.IfStmt:
			if id, ok := x.Cond.(*ast.Ident); ok && id.Name == "flush" {
				sawFinal = true // if flush { toFlush = append(…) } else { … priority queue … }
				continue
			}
			if x.Else != nil || x.Init != nil || !assignsTrue(x.Body, "flush") {
				die("conds: handleTicker: unexpected if statement in the marking loop: %s", src(x.Cond))
			}
			flushConds = append(flushConds, tick.boolExpr(x.Cond))
		case *ast.AssignStmt:
			// flush := false
			if len(x.Lhs) == 1 && src(x.Lhs[0]) == "flush" && src(x.Rhs[0]) == "false" {
				continue
			}
			die("conds: handleTicker: unexpected assignment in the marking loop: %s", src(x))
		default:
			if isLogCall(s) {
				continue
			}
			die("conds: handleTicker: unexpected statement in the marking loop: %s", src(s))
		}
	}
	if !sawFinal || len(flushConds) == 0 {
		die("conds: handleTicker: marking loop does not have the expected shape")
	}
	// memory pressure: `if totalMemory >= limit { heap.Init; for { if totalMemory < limit { break } … } }`
	var pStart, pStop string
	for _, s := range ht.Body.List {
		x, ok := s.(*ast.IfStmt)
		if !ok || !strings.Contains(src(x.Cond), "totalMemory") {
			continue
		}
		pStart = tick.boolExpr(x.Cond)
		ast.Inspect(x.Body, func(n ast.Node) bool {
			if f, ok := n.(*ast.ForStmt); ok && f.Cond == nil && pStop == "" {
				for _, fs := range f.Body.List {
					if ifs, ok := fs.(*ast.IfStmt); ok && len(ifs.Body.List) == 1 {
						if br, ok := ifs.Body.List[0].(*ast.BranchStmt); ok && br.Tok == token.BREAK {
							pStop = tick.boolExpr(ifs.Cond)
						}
					}
				}
			}
			return true
		})
	}
	if pStart == "" || pStop == "" {
		die("conds: handleTicker: memory-pressure block not found")
	}

	// ---- emitProgress
	pf := parseFile(filepath.Join(repo, "transport/progress/progress_tracker.go"))
	ep := findFunc(pf, "emitProgress", "ProgressTracker")
	if ep == nil {
		die("conds: ProgressTracker.emitProgress not found")
	}
	rel := &condTr{what: "emitProgress", vocab: map[string]string{"walStart": "commit", "count": "count", "total": "total"},
		isInt: map[string]bool{"commit": true, "count": true, "total": true}}
	// the locals must be the entry's fields
	want := map[string]string{"count": "ledgerEntry.Count", "total": "ledgerEntry.TotalMsgs", "walStart": "ledgerEntry.CommitWalStart"}
	got := map[string]string{}
	release := ""
	ast.Inspect(ep.Body, func(n ast.Node) bool {
		switch x := n.(type) {
		case *ast.AssignStmt:
			if len(x.Lhs) == 1 && len(x.Rhs) == 1 {
				if id, ok := x.Lhs[0].(*ast.Ident); ok {
					if _, w := want[id.Name]; w {
						got[id.Name] = src(x.Rhs[0])
					}
				}
			}
		case *ast.IfStmt:
			if x.Else != nil && release == "" {
				if eb, ok := x.Else.(*ast.BlockStmt); ok && len(eb.List) == 1 {
					if br, ok := eb.List[0].(*ast.BranchStmt); ok && br.Tok == token.BREAK {
						release = rel.boolExpr(x.Cond)
					}
				}
			}
		}
		return true
	})
	for k, v := range want {
		if got[k] != v {
			die("conds: emitProgress: local %s is %q, expected %s", k, got[k], v)
		}
	}
	if release == "" {
		die("conds: emitProgress: `if <releasable> { … } else { break }` not found")
	}

	var b strings.Builder
	b.WriteString("/-! GENERATED by tools/factgen: decision conditions translated from the source. Do not edit. -/\n")
	b.WriteString("namespace PgBifrost.Gen.Conds\n\n")
	b.WriteString("/-- `Batcher.handleTicker`: a batch is marked for flushing iff one of the `if … { flush = true }`\n    conditions of the marking loop holds (in source order) -/\n")
	b.WriteString("def tickFlush (isEmpty isFull : Bool) (ctime mtime now updAge maxAge : Int) : Bool :=\n  " + strings.Join(flushConds, " ||\n  ") + "\n\n")
	b.WriteString("/-- `handleTicker`: the memory-pressure loop is entered iff -/\n")
	b.WriteString("def pressureStart (total limit : Int) : Bool := " + pStart + "\n\n")
	b.WriteString("/-- … and popping stops (`break`) iff -/\n")
	b.WriteString("def pressureStop (total limit : Int) : Bool := " + pStop + "\n\n")
	b.WriteString("/-- `ProgressTracker.emitProgress`: a ledger entry is released (else the scan stops) iff -/\n")
	b.WriteString("def releasable (commit count total : Nat) : Bool := " + release + "\n\n")
	b.WriteString("end PgBifrost.Gen.Conds\n")
	os.WriteFile(filepath.Join(outDir, "Conds.lean"), []byte(b.String()), 0o644)
}
