package main

// 12. ProgressTracker.emitProgress (transport/progress/progress_tracker.go) translated: Gen/EmitSrc.lean.
// The function is one idiom — scan the ledger in order collecting entries while a condition holds (else break),
// then, if anything was collected, put one field of the LAST collected tuple on the output channel and remove
// every collected entry. The translator checks that shape statement by statement and emits the Lean definition
// with the pieces it found (the condition, which element is emitted, which field, what is removed).

import (
	"go/ast"
	"go/token"
	"os"
	"path/filepath"
	"strings"
)

func genEmitSrc(repo, outDir string) {
	f := parseFile(filepath.Join(repo, "transport/progress/progress_tracker.go"))
	ep := findFunc(f, "emitProgress", "ProgressTracker")
	if ep == nil {
		die("emit: ProgressTracker.emitProgress not found")
	}
	st := ep.Body.List
	if len(st) != 4 {
		die("emit: emitProgress has %d top-level statements, expected 4 (iterator, accumulator, scan loop, emit block)", len(st))
	}
	if src(st[0]) != "ledgerIter := p.ledger.items.IterFunc()" {
		die("emit: the scan does not iterate p.ledger.items in order: %s", src(st[0]))
	}
	acc, ok := st[1].(*ast.AssignStmt)
	if !ok || len(acc.Lhs) != 1 || !strings.HasSuffix(src(acc.Rhs[0]), "{}") {
		die("emit: accumulator is not initialised empty: %s", src(st[1]))
	}
	accName := src(acc.Lhs[0])
	loop, ok := st[2].(*ast.ForStmt)
	if !ok || src(loop.Init) != "kv, ok := ledgerIter()" || src(loop.Cond) != "ok" || src(loop.Post) != "kv, ok = ledgerIter()" {
		die("emit: unexpected scan loop header")
	}
	// loop body: unpacking assignments, then if cond { acc = append(acc, tuple{key, field, txn}) } else { break }
	locals := map[string]string{} // local -> LedgerEntry field / "key"
	var cond ast.Expr
	var tuple []string
	for _, s := range loop.Body.List {
		switch x := s.(type) {
		case *ast.AssignStmt:
			if len(x.Lhs) != 1 || x.Tok != token.DEFINE {
				die("emit: unexpected assignment in the scan loop: %s", src(x))
			}
			name, rhs := src(x.Lhs[0]), src(x.Rhs[0])
			switch {
			case rhs == "kv.Key.(string)":
				locals[name] = "key"
			case rhs == "kv.Value.(*LedgerEntry)":
				locals[name] = "*"
			case strings.HasPrefix(rhs, "ledgerEntry."):
				locals[name] = strings.TrimPrefix(rhs, "ledgerEntry.")
			default:
				die("emit: unexpected unpacking: %s", src(x))
			}
		case *ast.IfStmt:
			if cond != nil || x.Init != nil || x.Else == nil || len(x.Body.List) != 1 {
				die("emit: unexpected if in the scan loop")
			}
			eb, ok := x.Else.(*ast.BlockStmt)
			if !ok || len(eb.List) != 1 {
				die("emit: else branch of the scan is not a single break")
			}
			if br, ok := eb.List[0].(*ast.BranchStmt); !ok || br.Tok != token.BREAK {
				die("emit: else branch of the scan is not `break`")
			}
			as, ok := x.Body.List[0].(*ast.AssignStmt)
			if !ok || src(as.Lhs[0]) != accName {
				die("emit: then branch does not append to the accumulator")
			}
			c, ok := as.Rhs[0].(*ast.CallExpr)
			if !ok || src(c.Fun) != "append" || len(c.Args) != 2 || src(c.Args[0]) != accName {
				die("emit: then branch is not `%s = append(%s, …)`", accName, accName)
			}
			cl, ok := c.Args[1].(*ast.CompositeLit)
			if !ok {
				die("emit: appended value is not a literal")
			}
			for _, el := range cl.Elts {
				tuple = append(tuple, src(el))
			}
			cond = x.Cond
		default:
			die("emit: unexpected statement in the scan loop: %s", src(s))
		}
	}
	if cond == nil {
		die("emit: scan loop has no condition")
	}
	fieldOf := map[string]string{"Transaction": "txn", "TimeBasedKey": "key", "CommitWalStart": "commit", "Count": "count", "TotalMsgs": "total", "key": "key"}
	tr := &condTr{what: "emitProgress", vocab: map[string]string{}, isInt: map[string]bool{}}
	for l, fld := range locals {
		if fld == "*" {
			continue
		}
		lf, ok := fieldOf[fld]
		if !ok {
			die("emit: unknown entry field %s", fld)
		}
		tr.vocab[l] = "e." + lf
		tr.isInt["e."+lf] = true
	}
	condLean := tr.boolExpr(cond)
	// tuple fields: contiguousTuple{timeBasedKey, walStart, transaction}
	ctFields := []string{}
	for _, d := range f.Decls {
		if gd, ok := d.(*ast.GenDecl); ok {
			for _, sp := range gd.Specs {
				if ts, ok := sp.(*ast.TypeSpec); ok && ts.Name.Name == "contiguousTuple" {
					if stt, ok := ts.Type.(*ast.StructType); ok {
						for _, fl := range stt.Fields.List {
							for _, n := range fl.Names {
								ctFields = append(ctFields, n.Name)
							}
						}
					}
				}
			}
		}
	}
	if len(ctFields) != len(tuple) {
		die("emit: contiguousTuple has %d fields, the literal %d", len(ctFields), len(tuple))
	}
	tupleOf := map[string]string{} // tuple field -> Lean entry field
	for i, n := range ctFields {
		v, ok := tr.vocab[tuple[i]]
		if !ok {
			die("emit: tuple element %s is not an unpacked entry field", tuple[i])
		}
		tupleOf[n] = strings.TrimPrefix(v, "e.")
	}
	// emit block: if len(acc) > 0 { latest := acc[len(acc)-1].F; p.OutputChan <- latest; for _, c := range acc { p.ledger.remove(c.G) } }
	blk, ok := st[3].(*ast.IfStmt)
	if !ok || src(blk.Cond) != "len("+accName+") > 0" || blk.Else != nil || len(blk.Body.List) != 3 {
		die("emit: unexpected emit block")
	}
	la, ok := blk.Body.List[0].(*ast.AssignStmt)
	if !ok {
		die("emit: emit block does not start with an assignment")
	}
	sel, ok := la.Rhs[0].(*ast.SelectorExpr)
	if !ok {
		die("emit: emitted value is not a field of a collected tuple")
	}
	ix, ok := sel.X.(*ast.IndexExpr)
	if !ok || src(ix.X) != accName {
		die("emit: emitted value does not index the accumulator")
	}
	var idxLean string
	switch src(ix.Index) {
	case "len(" + accName + ")-1":
		idxLean = "pre.length - 1"
	case "0":
		idxLean = "0"
	default:
		die("emit: index outside the subset: %s", src(ix.Index))
	}
	emitField, ok := tupleOf[sel.Sel.Name]
	if !ok {
		die("emit: unknown tuple field %s", sel.Sel.Name)
	}
	snd, ok := blk.Body.List[1].(*ast.SendStmt)
	if !ok || src(snd.Chan) != "p.OutputChan" || src(snd.Value) != src(la.Lhs[0]) {
		die("emit: the value is not sent on p.OutputChan")
	}
	rl, ok := blk.Body.List[2].(*ast.RangeStmt)
	if !ok || src(rl.X) != accName || len(rl.Body.List) != 1 {
		die("emit: the removal loop does not range over the collected tuples")
	}
	rc, ok := rl.Body.List[0].(*ast.ExprStmt)
	if !ok {
		die("emit: removal loop body is not a call")
	}
	call, ok := rc.X.(*ast.CallExpr)
	if !ok || src(call.Fun) != "p.ledger.remove" || len(call.Args) != 1 {
		die("emit: removal loop does not call p.ledger.remove")
	}
	rsel, ok := call.Args[0].(*ast.SelectorExpr)
	if !ok || src(rsel.X) != src(rl.Value) {
		die("emit: removal is not by a field of the collected tuple")
	}
	rmField, ok := tupleOf[rsel.Sel.Name]
	if !ok {
		die("emit: unknown tuple field %s", rsel.Sel.Name)
	}
	var b strings.Builder
	b.WriteString("import PgBifrost.Gen.LedgerSrc\n/-! GENERATED by tools/factgen from ProgressTracker.emitProgress. Do not edit. -/\n")
	b.WriteString("namespace PgBifrost.Gen.EmitSrc\nopen PgBifrost.Ledger\n\n")
	b.WriteString("/-- the scan condition (`if … { collect } else { break }`) -/\n")
	b.WriteString("def collect (e : Entry) : Bool := " + condLean + "\n\n")
	b.WriteString("/-- `emitProgress`: value put on `OutputChan` (if any) and the ledger afterwards -/\n")
	b.WriteString("def emitProgress (s0 : State) : Option Nat × State :=\n")
	b.WriteString("  let pre := s0.items.takeWhile collect\n")
	b.WriteString("  if pre.length > 0 then\n")
	b.WriteString("    ((pre[" + idxLean + "]?).map (·." + emitField + "), pre.foldl (fun s c => (Gen.LedgerSrc.remove s c." + rmField + ").getD s) s0)\n")
	b.WriteString("  else (none, s0)\n\nend PgBifrost.Gen.EmitSrc\n")
	os.WriteFile(filepath.Join(outDir, "EmitSrc.lean"), []byte(b.String()), 0o644)
}
