package main

// 25. the worker loops of the S3 and RabbitMQ transporters (`StartTransporting`) translated statement by statement
// into Gen/WorkerLoops.lean as functions of what `transportWithRetry` returned; and the S3 worker's buffer
// preparation, per-record writes and the rewind of the body reader after a failed upload (Gen/S3WorkerSrc.lean).
// Theorems `s3_worker_as_in_source` (C12) and `rabbit_loop_as_in_source` (C13).

import (
	"go/ast"
	"os"
	"path/filepath"
	"strings"
)

// loopBody translates the body of `for { … }` of a StartTransporting. call: the text of the transportWithRetry
// assignment; batchVar: the typed batch variable; stat: the stat prefix.
func loopBody(what string, fn *ast.FuncDecl, call, batchVar, stat string, extraAssign []string, extraStats []string) []string {
	deferred := false
	var loop *ast.ForStmt
	for _, s := range fn.Body.List {
		switch x := s.(type) {
		case *ast.DeferStmt:
			if squash(src(x.Call)) == "t.shutdown()" {
				deferred = true
			}
		case *ast.ForStmt:
			loop = x
		}
	}
	if !deferred || loop == nil || loop.Cond != nil {
		die("%s: `defer t.shutdown()` / `for {` not found", what)
	}
	var out []string
	lp := 0
	has := func(l []string, p string) bool {
		for _, x := range l {
			if strings.HasPrefix(p, x) {
				return true
			}
		}
		return false
	}
	for _, s := range loop.Body.List {
		txt := squash(src(s))
		switch x := s.(type) {
		case *ast.SelectStmt:
			recv, term := false, false
			for _, cl := range x.Body.List {
				cc := cl.(*ast.CommClause)
				if cc.Comm == nil {
					continue
				}
				switch squash(src(cc.Comm)) {
				case "<-t.shutdownHandler.TerminateCtx.Done()":
					if len(cc.Body) == 0 || squash(src(cc.Body[len(cc.Body)-1])) != "return" {
						die("%s: terminate case does not return", what)
					}
					term = true
				case "b, ok = <-t.inputChan":
					recv = true
				default:
					die("%s: unexpected select case %s", what, squash(src(cc.Comm)))
				}
			}
			if !term || lp > 1 || (lp == 0 && !recv) {
				die("%s: select outside the subset", what)
			}
			if lp == 0 {
				out = append(out, "if i.preCancelled then return { r with stops := true }")
			}
			lp++
		case *ast.IfStmt:
			c := squash(src(x.Cond))
			last := squash(src(x.Body.List[len(x.Body.List)-1]))
			switch {
			case c == "!ok" && last == "return" && lp == 2:
				lp = 3
			case c == "!ok" && strings.HasPrefix(last, "panic(") && (lp == 3 || lp == 4):
			case c == "err != nil" && last == "return" && lp == 5:
				out = append(out, "if i.err then return { r with stops := true }")
			case c == "cancelled" && last == "continue" && lp == 5:
				out = append(out, "if i.cancelled then return r")
			default:
				die("%s: condition outside the subset (phase %d): if %s { … %s }", what, lp, c, last)
			}
		case *ast.AssignStmt:
			switch {
			case strings.HasPrefix(txt, batchVar+", ok := b.(*batch.") && lp == 3:
			case txt == "messages := "+batchVar+".GetPayload()" && lp == 3:
			case txt == "messagesSlice, ok := messages.([]*marshaller.MarshalledMessage)" && lp == 3:
				lp = 4
			case txt == "start := ts.UnixNano()" && lp == 4:
			case has(extraAssign, txt) && (lp == 4 || lp == 5):
			case txt == call && lp == 4:
				out = append(out, "r := { r with called := true }")
				out = append(out, "if i.panicked then return { r with stops := true }")
				lp = 5
			case strings.HasPrefix(txt, "total := ") && lp == 5:
			default:
				die("%s: assignment outside the subset (phase %d): %s", what, lp, txt)
			}
		case *ast.SendStmt:
			switch {
			case has(extraStats, txt) && lp == 4:
			case lp != 5:
				die("%s: send before the batch was sent: %s", what, txt)
			case strings.HasPrefix(txt, "t.statsChan <- stats.NewStatHistogram(\""+stat+"\", \"duration\", total,"):
				out = append(out, "r := { r with durationStat := true }")
			case strings.HasPrefix(txt, "t.statsChan <- stats.NewStatCount(\""+stat+"\", \"written\", int64("+batchVar+".NumMessages()),"):
				out = append(out, "r := { r with writtenStat := true }")
			case txt == "t.txnsWritten <- "+batchVar+".GetTransactions()":
				out = append(out, "r := { r with reported := true }")
			default:
				die("%s: unexpected send: %s", what, txt)
			}
		case *ast.ExprStmt:
			if !strings.HasPrefix(txt, "t.log.") {
				die("%s: statement outside the subset: %s", what, txt)
			}
		default:
			die("%s: statement outside the subset: %s", what, txt)
		}
	}
	if lp != 5 {
		die("%s: the loop never sends the batch", what)
	}
	return out
}

func genWorkerLoops(repo, outDir string) {
	fs := parseFile(filepath.Join(repo, "transport/transporters/s3/transporter/transporter.go"))
	fr := parseFile(filepath.Join(repo, "transport/transporters/rabbitmq/transporter/transporter.go"))
	s3 := findFunc(fs, "StartTransporting", "S3Transporter")
	rb := findFunc(fr, "StartTransporting", "RabbitMQTransporter")
	if s3 == nil || rb == nil {
		die("worker loops: StartTransporting not found")
	}
	s3l := loopBody("s3 loop", s3, "err, cancelled := t.transportWithRetry(t.shutdownHandler.TerminateCtx, messagesSlice)", "genericBatch", "s3_transport",
		[]string{"timeSinceClose := ", "now := ts.UnixNano()"}, []string{"t.statsChan <- stats.NewStatHistogram(\"s3_transport\", \"batch_waited\", timeSinceClose,"})
	rbl := loopBody("rabbit loop", rb, "cancelled, err := t.transportWithRetry(t.shutdownHandler.TerminateCtx, messagesSlice)", "genericBatch", "rabbitmq_transport", nil, nil)
	var b strings.Builder
	b.WriteString("import PgBifrost.Model.WorkerLoop\n/-! GENERATED by tools/factgen from the S3 and RabbitMQ transporters' StartTransporting. Do not edit. -/\n")
	b.WriteString("namespace PgBifrost.Gen.WorkerLoops\nopen PgBifrost.WorkerLoop\n\n")
	for _, p := range []struct {
		name string
		l    []string
	}{{"s3Iteration", s3l}, {"rabbitIteration", rbl}} {
		b.WriteString("def " + p.name + " (i : LoopIn) : LoopOut := Id.run do\n  let mut r : LoopOut := {}\n")
		for _, l := range p.l {
			b.WriteString("  " + l + "\n")
		}
		b.WriteString("  return r\n\n")
	}
	b.WriteString("end PgBifrost.Gen.WorkerLoops\n")
	os.WriteFile(filepath.Join(outDir, "WorkerLoops.lean"), []byte(b.String()), 0o644)

	// ---- S3 transportWithRetry: buffer preparation, writes, rewind ----
	tw := findFunc(fs, "transportWithRetry", "S3Transporter")
	if tw == nil {
		die("s3 worker: transportWithRetry not found")
	}
	tr := &condTr{what: "s3 worker", vocab: map[string]string{"t.bufUsedCount": "used", "t.bufMaxReuse": "maxReuse"},
		isInt: map[string]bool{"used": true, "maxReuse": true}}
	var prep []string
	var writes []string
	seek := ""
	closeSeen, readerAfterClose, cancelOnlyRecorded := false, false, false
	for _, s := range tw.Body.List {
		txt := squash(src(s))
		switch x := s.(type) {
		case *ast.AssignStmt:
			switch {
			case txt == "t.bufUsedCount += 1":
				prep = append(prep, "used := used + 1")
			case txt == "byteReader := bytes.NewReader(t.gzBuf.Bytes())":
				readerAfterClose = closeSeen
			}
		case *ast.IfStmt:
			c := squash(src(x.Cond))
			switch {
			case strings.Contains(c, "t.bufUsedCount") && x.Init == nil:
				cond := tr.boolExpr(x.Cond)
				branch := func(list []ast.Stmt) []string {
					var o []string
					for _, b := range list {
						bt := squash(src(b))
						switch bt {
						case "t.bufUsedCount = 0":
							o = append(o, "used := 0")
						case "t.gzBuf = bytes.NewBuffer(nil)":
							o = append(o, "plain := []")
						case "t.gz = pgzip.NewWriter(t.gzBuf)", "t.gz.Reset(t.gzBuf)":
						case "t.gzBuf.Reset()":
							o = append(o, "plain := env.reset plain")
						default:
							die("s3 worker: buffer preparation: statement outside the subset: %s", bt)
						}
					}
					return o
				}
				els, ok := x.Else.(*ast.BlockStmt)
				if !ok {
					die("s3 worker: buffer preparation without else")
				}
				prep = append(prep, "if "+cond+" then")
				for _, l := range branch(x.Body.List) {
					prep = append(prep, "  "+l)
				}
				prep = append(prep, "else")
				for _, l := range branch(els.List) {
					prep = append(prep, "  "+l)
				}
			case x.Init != nil && squash(src(x.Init)) == "err := t.gz.Close()":
				closeSeen = true
			}
		case *ast.SelectStmt:
			// the cancellation is only recorded here
			for _, cl := range x.Body.List {
				cc := cl.(*ast.CommClause)
				if cc.Comm != nil {
					cancelOnlyRecorded = true
					for _, b := range cc.Body {
						if _, isRet := b.(*ast.ReturnStmt); isRet {
							cancelOnlyRecorded = false
						}
					}
				}
			}
		case *ast.RangeStmt:
			if squash(src(x.X)) != "messagesSlice" || squash(src(x.Value)) != "msg" {
				die("s3 worker: write loop header outside the subset")
			}
			for _, b := range x.Body.List {
				ifs, ok := b.(*ast.IfStmt)
				if !ok || ifs.Init == nil {
					die("s3 worker: write loop statement outside the subset: %s", squash(src(b)))
				}
				switch squash(src(ifs.Init)) {
				case "_, err := t.gz.Write(msg.Json)":
					writes = append(writes, "r.json")
				case "_, err := t.gz.Write(newLineBytes)":
					writes = append(writes, "[newline]")
				default:
					die("s3 worker: write outside the subset: %s", squash(src(ifs.Init)))
				}
			}
		}
		_ = txt
	}
	ast.Inspect(tw.Body, func(n ast.Node) bool {
		if c, ok := n.(*ast.CallExpr); ok && squash(src(c.Fun)) == "byteReader.Seek" && len(c.Args) == 2 {
			seek = "some (" + squash(src(c.Args[0])) + ", " + squash(src(c.Args[1])) + ")"
		}
		return true
	})
	if seek == "" {
		seek = "none"
	}
	if len(prep) == 0 || len(writes) == 0 {
		die("s3 worker: preparation / writes not found")
	}
	var w strings.Builder
	w.WriteString("import PgBifrost.Model.S3Put\n/-! GENERATED by tools/factgen from S3Transporter.transportWithRetry. Do not edit. -/\n")
	w.WriteString("namespace PgBifrost.Gen.S3WorkerSrc\nopen PgBifrost.S3Put\n\n")
	w.WriteString("/-- the buffer bookkeeping at the top of `transportWithRetry` -/\ndef prepare (env : Env) (maxReuse : Nat) (b : Buf) : Buf := Id.run do\n  let mut used := b.used\n  let mut plain := b.plain\n")
	for _, l := range prep {
		w.WriteString("  " + l + "\n")
	}
	w.WriteString("  return ⟨used, plain⟩\n\n")
	w.WriteString("/-- what one pass of the write loop appends to the stream -/\ndef writeRec (acc : Bytes) (r : Rec) : Bytes := acc")
	for _, x := range writes {
		w.WriteString(" ++ " + x)
	}
	w.WriteString("\n\n/-- `byteReader.Seek(offset, whence)` in the error branch of the upload closure -/\ndef seekAfterFailure : Option (Nat × Nat) := " + seek + "\n")
	w.WriteString("/-- the reader is made from the buffer after `gz.Close()` -/\ndef readerAfterClose : Bool := " + map[bool]string{true: "true", false: "false"}[readerAfterClose] + "\n")
	w.WriteString("/-- a cancellation seen before the upload is only recorded (the upload still happens) -/\ndef cancelOnlyRecorded : Bool := " + map[bool]string{true: "true", false: "false"}[cancelOnlyRecorded] + "\n\n")
	w.WriteString("end PgBifrost.Gen.S3WorkerSrc\n")
	os.WriteFile(filepath.Join(outDir, "S3WorkerSrc.lean"), []byte(w.String()), 0o644)
}
