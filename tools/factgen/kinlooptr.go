package main

// 24. Kinesis worker: the body of the loop of `StartTransporting` (and the tail of `transportWithRetry`) translated
// statement by statement, in source order, into Gen/KinesisLoopSrc.lean. Theorem `kinesis_iteration_as_in_source`
// (C11): the model's `processBatch` is that function - the batch's transactions go to the progress channel only
// after the retry loop returned without error and without cancellation, after the duration stat.

import (
	"go/ast"
	"os"
	"path/filepath"
	"strings"
)

func genKinesisLoopSrc(repo, outDir string) {
	f := parseFile(filepath.Join(repo, "transport/transporters/kinesis/transporter/transporter.go"))
	tw := findFunc(f, "transportWithRetry", "KinesisTransporter")
	st := findFunc(f, "StartTransporting", "KinesisTransporter")
	if tw == nil || st == nil {
		die("kinesis loop: functions not found")
	}
	// tail of transportWithRetry: err := backoff.Retry(...); if err != nil { return err, cancelled }; return nil, cancelled
	n := len(tw.Body.List)
	if n < 3 || squash(src(tw.Body.List[n-3])) != "err := backoff.Retry(operation, t.retryPolicy)" ||
		squash(src(tw.Body.List[n-1])) != "return nil, cancelled" {
		die("kinesis loop: transportWithRetry does not end with Retry / return nil, cancelled")
	}
	if ifs, ok := tw.Body.List[n-2].(*ast.IfStmt); !ok || squash(src(ifs.Cond)) != "err != nil" ||
		squash(src(ifs.Body.List[len(ifs.Body.List)-1])) != "return err, cancelled" {
		die("kinesis loop: transportWithRetry does not hand the retry error on")
	}
	deferred := false
	var loop *ast.ForStmt
	for _, s := range st.Body.List {
		switch x := s.(type) {
		case *ast.DeferStmt:
			if squash(src(x.Call)) == "t.shutdown()" {
				deferred = true
			}
		case *ast.ForStmt:
			loop = x
		}
	}
	if !deferred || loop == nil || loop.Cond != nil {
		die("kinesis loop: `defer t.shutdown()` / `for {` not found")
	}
	var s2 []string
	lp := 0
	for _, s := range loop.Body.List {
		txt := squash(src(s))
		switch x := s.(type) {
		case *ast.SelectStmt:
			recv, term := false, false
			for _, cl := range x.Body.List {
				cc := cl.(*ast.CommClause)
				if cc.Comm == nil {
					continue
				}
				switch squash(src(cc.Comm)) {
				case "<-t.shutdownHandler.TerminateCtx.Done()":
					if len(cc.Body) == 0 || squash(src(cc.Body[len(cc.Body)-1])) != "return" {
						die("kinesis loop: terminate case does not return")
					}
					term = true
				case "b, ok = <-t.inputChan":
					recv = true
				default:
					die("kinesis loop: unexpected select case %s", squash(src(cc.Comm)))
				}
			}
			if !term || lp > 1 || (lp == 0 && !recv) {
				die("kinesis loop: select outside the subset")
			}
			if lp == 0 {
				s2 = append(s2, "if j.preCancelled then return { r with result := .cancelled }")
			}
			lp++
		case *ast.IfStmt:
			c := squash(src(x.Cond))
			last := squash(src(x.Body.List[len(x.Body.List)-1]))
			switch {
			case c == "!ok" && last == "return" && lp == 2:
				lp = 3
			case c == "!ok" && strings.HasPrefix(last, "panic(") && (lp == 3 || lp == 4):
			case c == "err != nil" && last == "return" && lp == 5:
				s2 = append(s2, "if tr.1 = .exhausted then return { r with result := .exhausted }")
			case c == "cancelled" && last == "continue" && lp == 5:
				s2 = append(s2, "if tr.1 = .cancelled then return { r with result := .cancelled }")
			default:
				die("kinesis loop: condition outside the subset (phase %d): if %s { … %s }", lp, c, last)
			}
		case *ast.AssignStmt:
			switch {
			case txt == "kinesisBatch, ok := b.(*batch.KinesisBatch)" && lp == 3:
			case txt == "payload := kinesisBatch.GetPayload()" && lp == 3:
			case txt == "prre, ok := payload.([]*kinesis.PutRecordsRequestEntry)" && lp == 3:
				lp = 4
			case txt == "pri := kinesis.PutRecordsInput{Records: prre, StreamName: &t.streamName}" && lp == 4:
			case txt == "start := ts.UnixNano()" && lp == 4:
			case txt == "err, cancelled := t.transportWithRetry(t.shutdownHandler.TerminateCtx, &pri)" && lp == 4:
				s2 = append(s2, "let tr := run j.recs j.outs budget")
				s2 = append(s2, "let s := attemptStats (budget + 1) j.recs j.outs")
				s2 = append(s2, "r := { r with calls := tr.2, failures := s.1, successes := s.2 }")
				s2 = append(s2, "if tr.1 = .panicSizeMismatch ∨ tr.1 = .panicIndex then return { r with result := tr.1 }")
				lp = 5
			case strings.HasPrefix(txt, "total := ") && lp == 5:
			default:
				die("kinesis loop: assignment outside the subset (phase %d): %s", lp, txt)
			}
		case *ast.SendStmt:
			if lp != 5 {
				die("kinesis loop: send before the batch was sent: %s", txt)
			}
			switch {
			case strings.HasPrefix(txt, "t.statsChan <- stats.NewStatHistogram(\"kinesis_transport\", \"duration\", total,"):
				s2 = append(s2, "r := { r with durationStat := true }")
			case strings.HasPrefix(txt, "t.statsChan <- stats.NewStatCount(\"kinesis_transport\", \"written\", int64(kinesisBatch.NumMessages()),"):
				s2 = append(s2, "r := { r with writtenStat := some j.recs.length }")
			case txt == "t.txnsWritten <- kinesisBatch.GetTransactions()":
				s2 = append(s2, "r := { r with reported := some j.txns }")
			default:
				die("kinesis loop: unexpected send: %s", txt)
			}
		case *ast.ExprStmt:
			if !strings.HasPrefix(txt, "t.log.") {
				die("kinesis loop: statement outside the subset: %s", txt)
			}
		default:
			die("kinesis loop: statement outside the subset: %s", txt)
		}
	}
	if lp != 5 {
		die("kinesis loop: the loop never sends the batch")
	}
	var b strings.Builder
	b.WriteString("import PgBifrost.Model.KinesisRetry\n/-! GENERATED by tools/factgen from KinesisTransporter.StartTransporting. Do not edit. -/\n")
	b.WriteString("namespace PgBifrost.Gen.KinesisLoopSrc\nopen PgBifrost.KinesisRetry PgBifrost.Batch\n\n")
	b.WriteString("/-- one pass through the loop body for a batch; `run`/`attemptStats` are `transportWithRetry` (see Gen/KinesisSrc) -/\n")
	b.WriteString("def iteration {α : Type} (budget : Nat) (j : Job α) : Report α := Id.run do\n")
	b.WriteString("  let mut r : Report α := ⟨[], .written, none, 0, 0, none, false⟩\n")
	for _, l := range s2 {
		b.WriteString("  " + l + "\n")
	}
	b.WriteString("  return r\n\nend PgBifrost.Gen.KinesisLoopSrc\n")
	os.WriteFile(filepath.Join(outDir, "KinesisLoopSrc.lean"), []byte(b.String()), 0o644)
}
