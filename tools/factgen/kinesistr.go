package main

// 18. the `operation` closure of KinesisTransporter.transportWithRetry translated: Gen/KinesisSrc.lean.
// One attempt, as a function of the records to send and of what happens (context cancelled at the top,
// PutRecords error, PutRecords answer): the guarded returns in source order, the size check, and the in-place
// compaction idiom (`toRetry := pri.Records[:0]` … `append(toRetry, pri.Records[i])` … `pri.SetRecords(toRetry)`)
// which is the model's `compact` (aliasing of the shared backing array included, `compact_eq_filter`).
// Theorem `kinesis_attempt_as_in_source` (C11): the model's retry loop is the iteration of this attempt.

import (
	"go/ast"
	"os"
	"path/filepath"
	"strings"
)

func genKinesisSrc(repo, outDir string) {
	f := parseFile(filepath.Join(repo, "transport/transporters/kinesis/transporter/transporter.go"))
	fn := findFunc(f, "transportWithRetry", "KinesisTransporter")
	if fn == nil {
		die("kinesis: transportWithRetry not found")
	}
	var op *ast.FuncLit
	for _, s := range fn.Body.List {
		if as, ok := s.(*ast.AssignStmt); ok && len(as.Lhs) == 1 && squash(src(as.Lhs[0])) == "operation" {
			op, _ = as.Rhs[0].(*ast.FuncLit)
		}
	}
	if op == nil {
		die("kinesis: the operation closure was not found")
	}
	// the closure is handed to backoff.Retry with the worker's policy, and its error is returned
	retried := false
	ast.Inspect(fn.Body, func(n ast.Node) bool {
		if c, ok := n.(*ast.CallExpr); ok && squash(src(c.Fun)) == "backoff.Retry" && len(c.Args) == 2 &&
			squash(src(c.Args[0])) == "operation" && squash(src(c.Args[1])) == "t.retryPolicy" {
			retried = true
		}
		return true
	})
	if !retried {
		die("kinesis: the closure is not run by backoff.Retry(operation, t.retryPolicy)")
	}
	var arms []string // Lean lines for the .resp case, in source order
	phase := 0        // 0 select, 1 call, 2.. checks, 9 done
	sawCancel, sawCallErr, sawCompactInit, sawLoop, sawSet := false, false, false, false, false
	for _, s := range op.Body.List {
		txt := squash(src(s))
		switch x := s.(type) {
		case *ast.SelectStmt:
			if phase != 0 {
				die("kinesis: select after the call")
			}
			for _, cl := range x.Body.List {
				cc := cl.(*ast.CommClause)
				if cc.Comm == nil {
					continue
				}
				if squash(src(cc.Comm)) != "<-ctx.Done()" {
					die("kinesis: unexpected select case %s", squash(src(cc.Comm)))
				}
				setC, retNil := false, false
				for _, b := range cc.Body {
					switch squash(src(b)) {
					case "cancelled = true":
						setC = true
					case "return nil":
						retNil = true
					default:
						if !isLogCall(b) && !strings.HasPrefix(squash(src(b)), "t.log.") {
							die("kinesis: unexpected statement in the cancellation case: %s", squash(src(b)))
						}
					}
				}
				sawCancel = setC && retNil
			}
			phase = 1
		case *ast.AssignStmt:
			switch {
			case txt == "pro, err := t.client.PutRecords(pri)" && phase == 1:
				phase = 2
			case txt == "errorMessages := map[string]int{}" && phase >= 2:
			case txt == "toRetry := pri.Records[:0]" && phase >= 2:
				sawCompactInit = true
			case strings.HasPrefix(txt, "err = errors.New(") && sawSet:
			default:
				die("kinesis: assignment outside the translator's subset: %s", txt)
			}
		case *ast.IfStmt:
			if phase < 2 || x.Else != nil || x.Init != nil {
				die("kinesis: unexpected if: %s", squash(src(x.Cond)))
			}
			c := squash(src(x.Cond))
			last := squash(src(x.Body.List[len(x.Body.List)-1]))
			switch c {
			case "err != nil":
				if last != "return err" {
					die("kinesis: a PutRecords error does not return the error (retry)")
				}
				sawCallErr = true
			case "*pro.FailedRecordCount == 0":
				if last != "return nil" {
					die("kinesis: FailedRecordCount == 0 does not return nil")
				}
				arms = append(arms, "if fc = 0 then .success")
			case "len(pri.Records) != len(pro.Records)":
				if !strings.HasPrefix(last, "panic(") {
					die("kinesis: size mismatch does not panic")
				}
				arms = append(arms, "if cur.length ≠ codes.length then .panicSize")
			default:
				die("kinesis: condition outside the translator's subset: %s", c)
			}
		case *ast.RangeStmt:
			// for i, element := range pro.Records { if element.ErrorCode != nil { errorMessages[*element.ErrorCode] += 1; r := pri.Records[i]; toRetry = append(toRetry, r) } }
			if !sawCompactInit || squash(src(x.X)) != "pro.Records" || squash(src(x.Key)) != "i" || squash(src(x.Value)) != "element" || len(x.Body.List) != 1 {
				die("kinesis: compaction loop header outside the subset")
			}
			ifs, ok := x.Body.List[0].(*ast.IfStmt)
			if !ok || squash(src(ifs.Cond)) != "element.ErrorCode != nil" || ifs.Else != nil {
				die("kinesis: compaction loop does not select by element.ErrorCode != nil")
			}
			want := []string{"errorMessages[*element.ErrorCode] += 1", "r := pri.Records[i]", "toRetry = append(toRetry, r)"}
			if len(ifs.Body.List) != len(want) {
				die("kinesis: compaction loop body has %d statements", len(ifs.Body.List))
			}
			for i, w := range want {
				if squash(src(ifs.Body.List[i])) != w {
					die("kinesis: compaction loop: %q, expected %q", squash(src(ifs.Body.List[i])), w)
				}
			}
			sawLoop = true
		case *ast.ExprStmt:
			switch {
			case txt == "pri.SetRecords(toRetry)" && sawLoop:
				sawSet = true
			case isLogCall(s) || strings.HasPrefix(txt, "t.log."):
			default:
				die("kinesis: statement outside the translator's subset: %s", txt)
			}
		case *ast.SendStmt:
			if squash(src(x.Chan)) != "t.statsChan" {
				die("kinesis: unexpected send: %s", txt)
			}
		case *ast.ReturnStmt:
			if txt != "return err" || !sawSet {
				die("kinesis: the closure does not end with `return err` after SetRecords")
			}
			phase = 9
		default:
			die("kinesis: statement outside the translator's subset: %s", txt)
		}
	}
	if phase != 9 || !sawCancel || !sawCallErr || len(arms) != 2 {
		die("kinesis: the closure does not have the expected parts (cancel %v, call error %v, checks %d)", sawCancel, sawCallErr, len(arms))
	}
	var b strings.Builder
	b.WriteString("import PgBifrost.Model.KinesisRetry\n/-! GENERATED by tools/factgen from KinesisTransporter.transportWithRetry (the operation closure). Do not edit. -/\n")
	b.WriteString("namespace PgBifrost.Gen.KinesisSrc\nopen PgBifrost.KinesisRetry\n\n")
	b.WriteString("inductive Step (α : Type) where\n  | cancelled | success | panicSize | panicIndex\n  | retry (next : List α)\n\n")
	b.WriteString("/-- one attempt on the records `cur` (= `pri.Records`) -/\n")
	b.WriteString("def attempt {α : Type} (cur : List α) : Outcome → Step α\n")
	b.WriteString("  | .cancelled => .cancelled          -- select { case <-ctx.Done(): cancelled = true; return nil }\n")
	b.WriteString("  | .callError => .retry cur          -- if err != nil { return err }: the same records again\n")
	b.WriteString("  | .resp codes fc =>\n")
	for _, a := range arms {
		b.WriteString("    " + a + " else\n")
	}
	b.WriteString("    match compact cur codes with      -- toRetry := pri.Records[:0]; … append(toRetry, pri.Records[i]) …; SetRecords\n")
	b.WriteString("    | none => .panicIndex\n    | some next => .retry next          -- return err\n\n")
	b.WriteString("end PgBifrost.Gen.KinesisSrc\n")
	os.WriteFile(filepath.Join(outDir, "KinesisSrc.lean"), []byte(b.String()), 0o644)
}
