#!/usr/bin/env python3
"""Regenerate the seeded-changes table of DESIGN.md (between <!--SEEDTABLE--> markers) from seeded/*/meta.json."""
import json, os, re, glob
V = os.path.dirname(os.path.dirname(os.path.abspath(__file__)))
rows = []
for d in sorted(glob.glob(os.path.join(V, "seeded", "*"))):
    m = os.path.join(d, "meta.json")
    if not os.path.exists(m):
        continue
    j = json.load(open(m))
    cell = lambda s: s.replace("|", "/").replace("\n", " ")
    rows.append(f"| {os.path.basename(d)} | {j['property']} | {cell(j['needs_to_manifest'])} | {cell(j['caught_by'])} |")
table = "<!--SEEDTABLE-->\n| seed | breaks | needs to manifest | caught by |\n|---|---|---|---|\n" + "\n".join(rows) + "\n<!--/SEEDTABLE-->"
p = os.path.join(V, "DESIGN.md")
s = open(p).read()
if "<!--SEEDTABLE-->" in s:
    s = re.sub(r"<!--SEEDTABLE-->.*?<!--/SEEDTABLE-->", lambda _: table, s, flags=re.S)
else:
    # first use: replace the hand-made table that follows <!--SEEDED-->
    s = re.sub(r"(<!--SEEDED-->\n)\| seed \| breaks.*?\n\n", lambda mm: mm.group(1) + table + "\n\n", s, count=1, flags=re.S)
open(p, "w").write(s)
print(len(rows), "seeds in table")
