#!/usr/bin/env python3
"""Regenerate /verif/MANIFEST.json from checklib/props.py (claimed checks) and
checklib/manifest_meta.py (texts). Every property not in PROPS goes to not_applicable."""
import json, os, sys
V = os.path.dirname(os.path.dirname(os.path.abspath(__file__)))
sys.path.insert(0, V)
from checklib.props import PROPS
from checklib.manifest_meta import META, NOT_CLAIMED, HOOK_COMMITS

ids = [json.loads(l)["id"] for l in open(os.path.join(V, "properties.jsonl"))]
checks = []
for pid in ids:
    if pid not in PROPS:
        continue
    m = META[pid]
    checks.append({
        "property_id": pid,
        "quick_cmd": f"./check {pid} --tier quick",
        "thorough_cmd": f"./check {pid} --tier thorough",
        "evidence_file": f"/verif/evidence/{pid}.json",
        "replay_cmd_template": f"./check {pid} --replay {{path}}",
        "engine": "lean4-proof+correspondence",
        "level_claimed": {"category": "proof", "text": m["text"], "design_ref": m.get("design_ref", f"DESIGN.md §6 {pid}")},
        "level_note": m["note"],
        "technique": m["technique"],
    })
man = {
    "version": 1,
    "setup_cmd": "./setup.sh",
    "hooks": {
        "guard": "verif",
        "enable": "go build -tags verif (the harness module replaces github.com/Nextdoor/pg-bifrost.git with /repo and is built with -tags verif on every check run)",
        "baseline_off_cmd": "cd /repo && GOFLAGS=-mod=mod GOPROXY=off go test -vet=off -count=1 -timeout 25m ./...",
        "source_commits": HOOK_COMMITS,
        "add_only": True,
    },
    "engines": [{
        "name": "lean4-proof+correspondence",
        "path": "/verif/check",
        "serves_properties": [c["property_id"] for c in checks],
        "kind_free_text": "Lean 4 theorems about executable models (lake build + #print axioms audit), models tied to /repo by "
                          "a Go AST fact translator (tools/factgen -> lean/PgBifrost/Gen) and a differential correspondence "
                          "harness (harness/, real packages in-process vs the Lean driver bfmodel), with Lean-evaluated "
                          "monitors on implementation histories as the violation search",
    }],
    "checks": checks,
    "notes": "See DESIGN.md. known-findings.json lists genuine defects recorded or fixed.",
    "not_applicable": [{"property_id": p, "reason": NOT_CLAIMED.get(p, "check not built yet in this revision of /verif (planned; see DESIGN.md §9)")}
                       for p in ids if p not in PROPS],
}
json.dump(man, open(os.path.join(V, "MANIFEST.json"), "w"), indent=1)
print("MANIFEST.json:", len(checks), "checks,", len(man["not_applicable"]), "not claimed")
