#!/usr/bin/env python3
"""Scripted mutation self-test (DESIGN Appendix B): realistic single edits applied to SCRATCH
copies of /repo (never /repo), harness rebuilt against each, listed components run.
  mutants.py [name-substring]
Prints one line per mutant: caught / MISSED. A mutant is caught when a component reports a
mismatch or a monitor hit. (Whether the repository's own tests still pass is not checked here.)"""
import sys, os, subprocess, shutil, json, tempfile

M = [
 # ledger / tracker
 ("ledger-ge", "transport/progress/progress_tracker.go", "if walStart != uint64(0) && count == total {", "if walStart != uint64(0) && count >= total {", "ledger"),
 ("ledger-nozero", "transport/progress/progress_tracker.go", "if walStart != uint64(0) && count == total {", "if count == total {", "ledger"),
 ("ledger-first", "transport/progress/progress_tracker.go", "contiguousTxnsWalStart[len(contiguousTxnsWalStart)-1].walStart", "contiguousTxnsWalStart[0].walStart", "ledger"),
 ("ledger-nosupersede", "transport/progress/ledger.go", "\t\t\tl.items.Delete(val)\n\n\t\t\t// We also need to delete it from our transactionToTimeBasedKey because the default\n\t\t\t// logic below will re-add it.\n\t\t\tdelete(l.transactionToTimeBasedKey, seen.Transaction)", "\t\t\tdelete(l.transactionToTimeBasedKey, seen.Transaction)", "ledger"),
 # batcher
 ("batcher-count-begin", "transport/batcher/batcher.go", "\t\tif msg.Operation == \"BEGIN\" || msg.Operation == \"COMMIT\" {\n\t\t\tcontinue", "\t\tif msg.Operation == \"BEGIN\" || msg.Operation == \"COMMIT\" {\n\t\t\tif msg.Operation == \"BEGIN\" {\n\t\t\t\ttotalMsgsInTxn += 1\n\t\t\t}\n\t\t\tcontinue", "batcher"),
 ("batcher-empty-nowritten", "transport/batcher/batcher.go", "\t\tb.txnsWritten <- batch.GetTransactions()\n\t\treturn true", "\t\treturn true", "batcher"),
 ("batcher-maxage-flip", "transport/batcher/batcher.go", "curBatch.CreateTime() < time.Now().UnixNano()-b.flushBatchMaxAge.Nanoseconds()", "curBatch.CreateTime() > time.Now().UnixNano()-b.flushBatchMaxAge.Nanoseconds()", "batcher"),
 ("batcher-mem-gt", "transport/batcher/batcher.go", "if totalMemory >= b.batcherMemorySoftLimit {", "if totalMemory > b.batcherMemorySoftLimit {", "batcher"),
 ("batcher-mem-loop-le", "transport/batcher/batcher.go", "\t\t\tif totalMemory < b.batcherMemorySoftLimit {\n\t\t\t\tbreak", "\t\t\tif totalMemory <= b.batcherMemorySoftLimit {\n\t\t\t\tbreak", "batcher"),
 ("batcher-route-zero", "transport/batcher/batcher.go", "channelIndex = utils.QuickHash(batch.GetPartitionKey(), b.workers)", "channelIndex = utils.QuickHash(batch.GetPartitionKey(), 1)", "batcher"),
 ("batcher-stat-closed-early", "transport/batcher/batcher.go", "\t\tb.statsChan <- stats.NewStatCount(\"batcher\", \"batch_closed_early\", 1, time.Now().UnixNano())\n", "", "batcher"),
 ("batcher-noreset", "transport/batcher/batcher.go", "\t\t\tcurTimeBasedKey = msg.TimeBasedKey\n\t\t\t//curTransaction = msg.Transaction\n\t\t\ttotalMsgsInTxn = 0", "\t\t\tcurTimeBasedKey = msg.TimeBasedKey", "batcher"),
 ("batcher-nodelete", "transport/batcher/batcher.go", "\t\tdelete(b.batches, key)\n", "", "batcher"),
 ("batcher-age-le", "transport/batcher/batcher.go", "curBatch.ModifyTime() < time.Now().UnixNano()-b.flushBatchUpdateAge.Nanoseconds()", "curBatch.ModifyTime() > time.Now().UnixNano()-b.flushBatchUpdateAge.Nanoseconds()", "batcher"),
 ("batcher-pop-smallest", "transport/batcher/queue/queue.go", "return bq[i].Priority > bq[j].Priority", "return bq[i].Priority < bq[j].Priority", "batcher"),
 ("batcher-rr-off", "transport/batcher/batcher.go", "if b.roundRobinPosition == b.workers-1 {", "if b.roundRobinPosition >= b.workers-2 {", "batcher"),
 ("batcher-begin-in-batch", "transport/batch/generic_batch.go", "if msg.Operation == \"BEGIN\" || msg.Operation == \"COMMIT\" {\n\t\treturn true, nil\n\t}\n\n\tif len(b.messages) == b.maxSize {", "if msg.Operation == \"BEGIN\" {\n\t\treturn true, nil\n\t}\n\n\tif len(b.messages) == b.maxSize {", "batch"),
 # batches
 ("kinesis-full-gt", "transport/transporters/kinesis/batch/batch.go", "return len(b.records) >= MAX_RECORDS", "return len(b.records) > MAX_RECORDS", "batch,batcher"),
 ("kinesis-toobig-ge", "transport/transporters/kinesis/batch/batch.go", "if len(msg.Json) > MAX_RECORD_SIZE_BYTES {", "if len(msg.Json) >= MAX_RECORD_SIZE_BYTES {", "batch,batcher"),
 ("kinesis-toobig-nocount", "transport/transporters/kinesis/batch/batch.go", "\t\tprogress.UpdateTransactions(msg, b.transactions)\n\t\treturn false, errors.New(transport.ERR_MSG_TOOBIG)", "\t\treturn false, errors.New(transport.ERR_MSG_TOOBIG)", "batch,batcher"),
 ("kinesis-key-swap", "transport/transporters/kinesis/factory.go", "if partMethod == partitioner.PART_METHOD_NONE {", "if partMethod != partitioner.PART_METHOD_NONE {", "batcher"),
 ("kafka-size-ge", "transport/transporters/kafka/batch/batch.go", "if kafkaMsg.ByteSize(2) > b.maxMessageBytes {", "if kafkaMsg.ByteSize(2) >= b.maxMessageBytes {", "batch,kafka"),
 ("generic-full-gt", "transport/batch/generic_batch.go", "return len(b.messages) >= b.maxSize", "return len(b.messages) > b.maxSize", "batch,batcher"),
 # transporters
 ("kinesis-written-on-cancel", "transport/transporters/kinesis/transporter/transporter.go", "\t\tif cancelled {\n\t\t\tcontinue\n\t\t}\n\n\t\tt.log.Debug(\"successfully wrote batch\")\n\t\tt.statsChan <- stats.NewStatCount(\"kinesis_transport\"", "\t\tt.log.Debug(\"successfully wrote batch\")\n\t\tt.statsChan <- stats.NewStatCount(\"kinesis_transport\"", "kinesis"),
 ("s3-no-newline", "transport/transporters/s3/transporter/transporter.go", "\t\tif _, err := t.gz.Write(newLineBytes); err != nil {\n\t\t\treturn err, cancelled\n\t\t}\n", "", "s3"),
 ("s3-key-no-lsn", "transport/transporters/s3/transporter/transporter.go", "baseFilename := fmt.Sprintf(\"%s_%d\", full, firstWalStart)", "baseFilename := fmt.Sprintf(\"%s_%d\", full, firstWalStart/1000)", "s3"),
 ("rabbit-routing-key", "transport/transporters/rabbitmq/transporter/transporter.go", "key := strings.Join([]string{msg.Table, msg.Operation}, \".\")", "key := strings.Join([]string{msg.Operation, msg.Table}, \".\")", "rabbit"),
 ("rabbit-desired-off", "transport/transporters/rabbitmq/transporter/transporter.go", "desiredCount := messageCount + t.channelConfirms", "desiredCount := messageCount + t.channelConfirms - 1", "rabbit"),
 ("kafka-continue-after-error", "transport/transporters/kafka/transporter/transporter.go", "\t\tif err != nil {\n\t\t\tt.log.Error(\"max retries exceeded\")\n\t\t\treturn\n\t\t}", "\t\tif err != nil {\n\t\t\tt.log.Error(\"max retries exceeded\")\n\t\t\tcontinue\n\t\t}", "kafka"),
 ("kafka-key-txn", "transport/transporters/kafka/batch/batch.go", "kafkaMsg.Key = sarama.StringEncoder(msg.TimeBasedKey)", "kafkaMsg.Key = sarama.StringEncoder(msg.Transaction)", "kafka"),
 # client
 ("client-ack-walstart", "replication/client/client.go", "\tc.outputChan <- wal", "\tc.outputChan <- wal", "client"),
 ("client-ge-flip", "replication/client/client.go", "if c.overallProgress >= latestProgress {", "if c.overallProgress > latestProgress+100 {", "client"),
 ("client-nomax", "replication/client/client.go", "\t\tif c.highestWalStart < wal.WalStart {\n\t\t\tc.highestWalStart = wal.WalStart\n\t\t} else {", "\t\tc.highestWalStart = wal.WalStart\n\t\tif false {\n\t\t} else {", "client"),
 ("client-key-nonanos", "replication/client/client.go", "strs = append(strs, strconv.FormatInt(time.Now().UnixNano(), 10))", "strs = append(strs, strconv.FormatInt(time.Now().Unix(), 10))", "client"),
 ("client-no-force-timeout", "replication/client/client.go", "\t\t\t\tif err := c.handleProgress(true); err != nil {\n\t\t\t\t\tlog.Error(err)\n\t\t\t\t\treturn\n\t\t\t\t}\n\n\t\t\t\tcontinue", "\t\t\t\tif err := c.handleProgress(false); err != nil {\n\t\t\t\t\tlog.Error(err)\n\t\t\t\t\treturn\n\t\t\t\t}\n\n\t\t\t\tcontinue", "client"),
 # filter / partitioner
 ("filter-invert-bl", "filter/filter.go", "\t\t\tif !found {\n\t\t\t\tfiltered = false\n\t\t\t}", "\t\t\tif found {\n\t\t\t\tfiltered = false\n\t\t\t}", "filter,e2e"),
 ("filter-drop-begin", "filter/filter.go", "if msg.Pr.Operation == \"BEGIN\" || msg.Pr.Operation == \"COMMIT\" {", "if msg.Pr.Operation == \"COMMIT\" {", "filter"),
 ("part-bucket-rel", "partitioner/partitioner.go", "partitionKey = strconv.Itoa(utils.QuickHash(msg.Pr.Transaction, f.buckets))", "partitionKey = strconv.Itoa(utils.QuickHash(msg.Pr.Relation, f.buckets))", "partitioner"),
 # parser / marshaller
 ("parser-no-unescape", "parselogical/parselogical.go", "strings.Replace(message[startStr:endStr], \"''\", \"'\", -1)", "message[startStr:endStr]", "parser"),
 ("parser-old-swap", "parselogical/parselogical.go", "\t\t\t\tif state.OldKey {\n\t\t\t\t\tpr.OldColumns[state.CurColumnName] = cv", "\t\t\t\tif !state.OldKey {\n\t\t\t\t\tpr.OldColumns[state.CurColumnName] = cv", "parser"),
 ("marshal-lower-hex", "marshaller/marshaller.go", "\"%X/%X\"", "\"%x/%X\"", "marshal"),
 ("marshal-old-when-equal", "marshaller/marshaller.go", "if ok && v.Value != oldV.Value {", "if ok {", "marshal"),
 # aggregator
 ("agg-bucket", "stats/aggregator/aggregator.go", "bucketTime := a.aggregateTimeNano * (s.Timestamp / a.aggregateTimeNano)", "bucketTime := a.aggregateTimeNano * ((s.Timestamp + 1) / a.aggregateTimeNano)", "aggregator"),
 ("agg-minmax", "stats/aggregator/aggregate.go", "if s.Value < a.min {", "if s.Value <= a.min-1 {", "aggregator"),
 # shutdown
 ("filter-no-cancel", "filter/filter.go", "\tf.shutdownHandler.CancelFunc() // initiate shutdown on other modules as well\n", "", "pipefault"),
]


def main():
    sel = sys.argv[1] if len(sys.argv) > 1 else ""
    env = dict(os.environ, GOFLAGS="-mod=mod", GOPROXY="off", GOSUMDB="off", GOTOOLCHAIN="local", CGO_ENABLED="0")
    missed = []
    for name, f, old, new, comps in M:
        if sel not in name or old == new:
            continue
        d = tempfile.mkdtemp(prefix="mut_")
        try:
            repo = os.path.join(d, "repo")
            subprocess.run(["rsync", "-a", "--exclude", ".git", "/repo/", repo + "/"], check=True)
            p = os.path.join(repo, f)
            s = open(p).read()
            if s.count(old) != 1:
                print(f"{name}: pattern occurs {s.count(old)} times - skipped"); continue
            open(p, "w").write(s.replace(old, new))
            r = subprocess.run(["go", "build", "./..."], cwd=repo, env=env, stdout=subprocess.PIPE, stderr=subprocess.STDOUT, text=True)
            if r.returncode != 0:
                print(f"{name}: mutant does not compile - skipped"); continue
            h = os.path.join(d, "harness")
            shutil.copytree("/verif/harness", h)
            subprocess.run([sys.executable, "/verif/tools/mkgomod.py", repo, os.path.join(h, "go.mod")], check=True)
            shutil.copy(os.path.join(repo, "go.sum"), os.path.join(h, "go.sum"))
            r = subprocess.run(["go", "build", "-tags", "verif", "-o", os.path.join(d, "bfh"), "."], cwd=h, env=env,
                               stdout=subprocess.PIPE, stderr=subprocess.STDOUT, text=True)
            if r.returncode != 0:
                print(f"{name}: caught (harness no longer builds = broken tie)"); continue
            caught = []
            for comp in comps.split(","):
                out = os.path.join(d, "r.json")
                e2 = dict(env, VERIF_REPO=repo)
                cmd = [os.path.join(d, "bfh"), "-component", comp, "-seed", "1", "-out", out]
                if comp in ("pipeline", "pipefault", "marshal"):
                    cmd += ["-cases", "40"]
                try:
                    subprocess.run(cmd, stdout=subprocess.PIPE, stderr=subprocess.PIPE, text=True, env=e2, timeout=600)
                    res = json.load(open(out))
                except Exception as ex:
                    print(f"{name}: {comp} run failed {ex}"); continue
                mm, mh = len(res.get("mismatches") or []), res.get("monitor_hits") or []
                props = sorted({x["violation"]["property"] for x in mh if not x["violation"].get("known")})
                if mm or props:
                    caught.append(f"{comp}(mismatches={mm}, monitors={props})")
            print(f"{name}: " + ("caught by " + "; ".join(caught) if caught else "MISSED"))
            if not caught:
                missed.append(name)
        finally:
            shutil.rmtree(d, ignore_errors=True)
    print("missed:", missed)


if __name__ == "__main__":
    main()
