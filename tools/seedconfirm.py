#!/usr/bin/env python3
"""Confirm a seeded breaking change in a fresh scratch worktree (never /repo itself):
compiles, the repository's own tests of the touched packages pass with it, the demonstration
passes without it and fails with it. Then store it as /verif/seeded/<id>/.
  seedconfirm.py <Cxx> <seed worktree> "<needs>" "<caught by>" """
import sys, os, subprocess, tempfile, shutil, json, re
sid, seed, needs, caught = sys.argv[1:5]
pid = sid.split("-")[0]
env = dict(os.environ, GOFLAGS="-mod=mod", GOPROXY="off", GOSUMDB="off", GOTOOLCHAIN="local")
def run(cmd, cwd, timeout=1500):
    try:
        r = subprocess.run(cmd, cwd=cwd, env=env, stdout=subprocess.PIPE, stderr=subprocess.STDOUT, text=True, timeout=timeout)
        return r.returncode, r.stdout
    except subprocess.TimeoutExpired:
        return 124, "timeout"
st = subprocess.check_output(["git", "-C", seed, "status", "--porcelain"], text=True)
demos = [l[3:].strip() for l in st.splitlines() if l.startswith("??") and not l[3:].startswith("out/")]
demos = [d for d in demos if not d.endswith("/")] + [os.path.join(d, f) for d in demos if d.endswith("/") for f in os.listdir(os.path.join(seed, d))]
patch = os.path.join(seed, "out", "patch.diff")
touched = sorted({os.path.dirname(m.group(1)) for m in re.finditer(r"^\+\+\+ b/(\S+)", open(patch).read(), flags=re.M)})
d = tempfile.mkdtemp(prefix="sconf_"); os.rmdir(d)
res = {"property": pid, "demo_files": demos, "touched_packages": touched}
try:
    subprocess.run(["git", "-C", "/repo", "worktree", "add", "-q", d, "HEAD"], check=True)
    for f in demos:
        os.makedirs(os.path.dirname(os.path.join(d, f)), exist_ok=True)
        shutil.copy(os.path.join(seed, f), os.path.join(d, f))
    demo_pkgs = sorted({"./" + os.path.dirname(f) + "/" for f in demos})
    rc, out = run(["go", "test", "-count=1", "-run", "Seed", "-timeout", "300s"] + demo_pkgs, d)
    res["demo_without_change"] = "pass" if rc == 0 else "FAIL"
    res["demo_without_change_tail"] = out[-300:]
    rc, out = run(["git", "apply", patch], d)
    res["patch_applies"] = rc == 0
    rc, out = run(["go", "build", "./..."], d); res["builds"] = rc == 0
    rc, out = run(["go", "vet"] + ["./" + t + "/" for t in touched], d); res["vet"] = rc == 0
    rc, out = run(["go", "test", "-count=1", "-skip", "Seed", "-timeout", "600s"] + ["./" + t + "/..." for t in touched], d)
    res["existing_tests_with_change"] = "pass" if rc == 0 else "FAIL"
    if rc != 0: res["existing_tests_tail"] = out[-600:]
    rc, out = run(["go", "test", "-count=1", "-run", "Seed", "-timeout", "300s"] + demo_pkgs, d)
    res["demo_with_change"] = "fail" if rc != 0 else "PASS(!)"
    res["demo_with_change_tail"] = out[-400:]
finally:
    subprocess.run(["git", "-C", "/repo", "worktree", "remove", "--force", d])
ok = res.get("demo_without_change") == "pass" and res.get("patch_applies") and res.get("builds") and \
     res.get("existing_tests_with_change") == "pass" and res.get("demo_with_change") == "fail"
res["confirmed"] = bool(ok)
print(json.dumps({k: v for k, v in res.items() if not k.endswith("_tail")}, indent=1))
if ok:
    dst = f"/verif/seeded/{sid}"
    os.makedirs(dst, exist_ok=True)
    shutil.copy(patch, os.path.join(dst, "patch.diff"))
    for f in demos:
        shutil.copy(os.path.join(seed, f), os.path.join(dst, os.path.basename(f) + ".txt"))
    if os.path.exists(os.path.join(seed, "out", "README.md")):
        shutil.copy(os.path.join(seed, "out", "README.md"), os.path.join(dst, "README.md"))
    meta = {"property": pid, "base_commit": subprocess.check_output(["git", "-C", "/repo", "log", "--format=%h", "-1"], text=True).strip(),
            "needs_to_manifest": needs, "caught_by": caught,
            "demo_files": {os.path.basename(f) + ".txt": f for f in demos},
            "confirmation": {k: v for k, v in res.items() if not k.endswith("_tail") and k not in ("demo_files",)},
            "how_confirmed": "tools/seedconfirm.py: fresh scratch worktree of /repo HEAD; demo run without the patch (pass), patch applied, "
                             "go build ./..., go vet and go test -skip Seed of the touched packages (pass), demo run with the patch (fail); worktree removed",
            "how_checked": "tools/seedcheck.py: patch applied in a fresh scratch worktree, ./check <property> run with VERIF_REPO pointing at it"}
    json.dump(meta, open(os.path.join(dst, "meta.json"), "w"), indent=1)
    print("stored in", dst)
