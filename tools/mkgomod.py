#!/usr/bin/env python3
"""Write harness/go.mod: same requirements as /repo/go.mod (so no module lookup is needed
offline) + a replace of the repository module by the working tree."""
import re, sys
repo = sys.argv[1] if len(sys.argv) > 1 else "/repo"
out = sys.argv[2] if len(sys.argv) > 2 else "/verif/harness/go.mod"
src = open(repo + "/go.mod").read()
reqs = re.findall(r"^require \((.*?)^\)", src, flags=re.S | re.M)
single = re.findall(r"^require ([^\(\n]+)$", src, flags=re.M)
gov = re.search(r"^go (\S+)", src, flags=re.M).group(1)
body = "module verif/harness\n\ngo %s\n\nrequire github.com/Nextdoor/pg-bifrost.git v0.0.0\n\n" % gov
for r in reqs:
    body += "require (" + r + ")\n\n"
for s in single:
    body += "require " + s + "\n"
body += "replace github.com/Nextdoor/pg-bifrost.git => %s\n" % repo
open(out, "w").write(body)
