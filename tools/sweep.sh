#!/bin/sh
# Unchanged-tree sweep: every property's check at the given tier for the given seeds, in the current /verif
# tree (run it from a `vp run` snapshot so that it does not disturb the working copy).
#   tools/sweep.sh <tier> <seed> [<seed> ...]        (SWEEP_PROPS="C05 C06 …" restricts the properties)
tier=$1; shift
props=${SWEEP_PROPS:-C01 C02 C03 C04 C05 C06 C07 C08 C09 C10 C11 C12 C13 C14 C15 C16 C17 C18 C19}
./setup.sh > sweep_setup.log 2>&1 || { echo "setup failed"; tail -20 sweep_setup.log; exit 2; }
for seed in "$@"; do
  for p in $props; do
    start=$(date +%s)
    VERIF_SEED=$seed timeout 7200 ./check $p --tier $tier > sweep_${p}_${seed}.log 2>&1
    rc=$?
    echo "seed=$seed $p rc=$rc $(( $(date +%s) - start ))s $(grep -c '^VIOLATION' sweep_${p}_${seed}.log) violations: $(grep '^VIOLATION' sweep_${p}_${seed}.log | head -2 | tr '\n' ' ')"
    grep "^\[$p\]" sweep_${p}_${seed}.log
  done
done
