#!/usr/bin/env python3
"""Are the source ties live?  For each listed single edit of the repository (applied to a scratch worktree, never to
/repo) run the translators and rebuild the property's Props module in a scratch copy of the Lean project: the
build must FAIL (translator refuses the fragment, or the `*_as_in_source` equality no longer checks). The unedited
tree must build. Prints one line per edit; exit 1 if a tie slept through its edit.
  tools/tieselftest.py [name-substring]"""
import sys, os, subprocess, tempfile, shutil, re
ENV = dict(os.environ, GOFLAGS="-mod=mod", GOPROXY="off", GOSUMDB="off", GOTOOLCHAIN="local")
EDITS = [
 # (name, file, old, new, Props module)
 ("s3-key-separator", "transport/transporters/s3/transporter/transporter.go", "if i != len(strs)-1 {", "if i != len(strs) {", "C12"),
 ("s3-buf-reuse-ge", "transport/transporters/s3/transporter/transporter.go", "if t.bufUsedCount > t.bufMaxReuse {", "if t.bufUsedCount >= t.bufMaxReuse {", "C12"),
 ("kafka-report-before-cancel-test", "transport/transporters/kafka/transporter/transporter.go",
  "\t\tif cancelled {\n\t\t\tcontinue\n\t\t}\n\n\t\tt.log.Debug(\"successfully wrote batch to kafka\")", "\t\tt.txnsWritten <- kafkaBatch.GetTransactions()\n\t\tif cancelled {\n\t\t\tcontinue\n\t\t}\n\n\t\tt.log.Debug(\"successfully wrote batch to kafka\")", "C14"),
 ("kinesis-loop-continue-on-error", "transport/transporters/kinesis/transporter/transporter.go",
  "\t\t\tt.log.Error(\"max retries exceeded\")\n\t\t\treturn", "\t\t\tt.log.Error(\"max retries exceeded\")\n\t\t\tcontinue", "C11"),
 ("rabbit-remaining-off-by-one", "transport/transporters/rabbitmq/transporter/transporter.go",
  "remaining = desiredCount - t.channelConfirms", "remaining = desiredCount - t.channelConfirms - 1", "C13"),
 ("rabbit-reset-after-log", "transport/transporters/rabbitmq/transporter/transporter.go",
  "\t\tt.resetChannel(ch)\n\n\t\t// record the error\n\t\terr = fmt.Errorf(\"%d records failed to be acknowledged by RabbitMQ: %v\", remaining, err)\n\t\tt.log.Warnf(\"err %s\", err)",
  "\t\t// record the error\n\t\terr = fmt.Errorf(\"%d records failed to be acknowledged by RabbitMQ: %v\", remaining, err)\n\t\tt.log.Warnf(\"err %s\", err)\n\t\tt.resetChannel(ch)", "C13"),
 ("parser-relation-tokenstart", "parselogical/parselogical.go",
  "\t\t\t\tpr.Relation = message[state.TokenStart:i]\n\t\t\t\tstate.TokenStart = i + 2", "\t\t\t\tpr.Relation = message[state.TokenStart:i]\n\t\t\t\tstate.TokenStart = i + 1", "C09"),
 ("parser-quote-doubling", "parselogical/parselogical.go",
  "\t\tcase parseStateColumnQuotedValue:\n\t\t\tif chr == '\\'' {\n\t\t\t\tif chrNext == '\\'' {\n\t\t\t\t\ti++", "\t\tcase parseStateColumnQuotedValue:\n\t\t\tif chr == '\\'' {\n\t\t\t\tif chrNext == '\\'' && false {\n\t\t\t\t\ti++", "C09"),
 ("parser-prologue-len", "parselogical/parselogical.go", "if len(message) < 5 {", "if len(message) < 6 {", "C09"),
 ("marshal-lsn-lower-hex", "marshaller/marshaller.go", "\"%X/%X\"", "\"%x/%x\"", "C10"),
 ("marshal-txn-field", "marshaller/marshaller.go", "reusedWalEntry.Txn = msg.TimeBasedKey", "reusedWalEntry.Txn = msg.Pr.Transaction", "C10"),
 ("client-heartbeat-ge", "replication/client/client.go", "c.heartbeatRequestCounter > 5 {\n\t\treturn errors.New", "c.heartbeatRequestCounter >= 5 {\n\t\treturn errors.New", "C18"),
 ("client-recovery-zero-lsn", "replication/client/client.go", "\t\tif commitWalStart == 0 {\n\t\t\tcommitWalStart = c.overallProgress\n\t\t}\n", "", "C02"),
 ("connmgr-start-lsn", "replication/client/conn/manager.go", "pglogrepl.LSN(startLsn)", "pglogrepl.LSN(startLsn+1)", "C03"),
 ("txns-key", "transport/progress/utils.go", "transactions.Set(msg.TimeBasedKey, transaction)", "transactions.Set(msg.Transaction, transaction)", "C04"),
 ("tracker-written-to-seen", "transport/progress/progress_tracker.go", "err := p.ledger.updateWritten(written)", "err := p.ledger.updateWritten(written); _ = written", "C01"),
 ("agg-expiry-ge", "stats/aggregator/aggregator.go", "return timeNow > bucketTime+a.aggregateTimeNano+reportGraceNano", "return timeNow >= bucketTime+a.aggregateTimeNano+reportGraceNano", "C19"),
 ("time-12h-layout", "utils/time.go", '"20060102150405"', '"20060102030405"', "C12"),
 ("stdout-json-as-format", "transport/transporters/stdout/transporter/transporter.go", 'fmt.Printf("%d: %s\\n", t.id, string(msg.Json))', 'fmt.Printf(fmt.Sprint(t.id) + ": " + string(msg.Json) + "\\n")', "C04"),
 ("kafka-acks-zero", "transport/transporters/kafka/client_config.yaml.go", "\tconfig.Producer.Return.Successes = true", "\tconfig.Producer.RequiredAcks = sarama.NoResponse\n\tconfig.Producer.Return.Successes = true", "C15"),
 ("kafka-factory-swap", "transport/transporters/kafka/factory.go", "producerConfig(tls, ca, privateKey, publicKey, kafkaFlushBytes, kafkaFlushFrequency, maxMessageBytes, kafkaRetryMax)", "producerConfig(tls, ca, privateKey, publicKey, maxMessageBytes, kafkaFlushFrequency, kafkaFlushBytes, kafkaRetryMax)", "C15"),
 ("main-slot-swap", "main/main.go", "batcherConfig[config.VAR_NAME_BATCH_FLUSH_MAX_AGE] = batchFlushMaxAge\n\tbatcherConfig[config.VAR_NAME_BATCH_FLUSH_UPDATE_AGE] = batchFlushUpdateAge", "batcherConfig[config.VAR_NAME_BATCH_FLUSH_MAX_AGE] = batchFlushUpdateAge\n\tbatcherConfig[config.VAR_NAME_BATCH_FLUSH_UPDATE_AGE] = batchFlushMaxAge", "C16"),
 ("message-parse-order", "replication/message.go", "err := pr.ParsePrelude()", "err := pr.ParseColumns()", "C09"),
 ("agg-key-order", "stats/aggregator/aggregator.go", "\tsb.WriteString(s.Component)\n\tsb.WriteString(s.StatName)", "\tsb.WriteString(s.StatName)\n\tsb.WriteString(s.Component)", "C19"),
]
only = sys.argv[1] if len(sys.argv) > 1 else ""
work = tempfile.mkdtemp(prefix="tieself_")
lean = os.path.join(work, "lean")
shutil.copytree("/verif/lean", lean, symlinks=True)
fg = os.path.join(work, "factgen")
r = subprocess.run(["go", "build", "-o", fg, "."], cwd="/verif/tools/factgen", env=ENV, stdout=subprocess.PIPE, stderr=subprocess.STDOUT, text=True)
if r.returncode != 0:
    print("factgen does not build:", r.stdout); sys.exit(2)
def gen_and_build(repo, mod):
    out = os.path.join(work, "gen"); shutil.rmtree(out, ignore_errors=True); os.makedirs(out)
    g = subprocess.run([fg, "-repo", repo, "-out", out], stdout=subprocess.PIPE, stderr=subprocess.STDOUT, text=True)
    msg = [l for l in g.stdout.splitlines() if "factgen" in l or "outside" in l or ":" in l][-1:] if g.returncode != 0 else []
    imports = open(os.path.join(lean, "PgBifrost", "Props", mod + ".lean")).read()
    failed_gens = re.findall(r"FAILED (\S+)", g.stdout)
    for f in os.listdir(out):
        if f.endswith(".lean"):
            shutil.copy(os.path.join(out, f), os.path.join(lean, "PgBifrost", "Gen", f))
    if g.returncode not in (0, 3):
        return False, "factgen rc=%d %s" % (g.returncode, msg)
    b = subprocess.run(["lake", "build", "PgBifrost.Props." + mod], cwd=lean, stdout=subprocess.PIPE, stderr=subprocess.STDOUT, text=True)
    if g.returncode == 3:
        return False, "translator refused: " + " ".join(l.strip() for l in g.stdout.splitlines() if "FAILED" in l)[:200]
    if b.returncode != 0:
        m = re.search(r"error: (PgBifrost/\S+)", b.stdout)
        return False, "proof broke at " + (m.group(1) if m else "?")
    return True, "builds"
bad = 0
ok, why = gen_and_build("/repo", "C12")
print("unedited tree (C12 module):", why)
for name, path, old, new, pid in EDITS:
    if only and only not in name: continue
    wt = os.path.join(work, "wt")
    subprocess.run(["git", "-C", "/repo", "worktree", "add", "-q", "--detach", wt, "HEAD"], check=True)
    try:
        p = os.path.join(wt, path); s = open(p).read()
        if old not in s:
            print(f"{name}: EDIT DOES NOT APPLY"); bad += 1; continue
        open(p, "w").write(s.replace(old, new, 1))
        c = subprocess.run(["go", "build", "./..."], cwd=wt, env=ENV, stdout=subprocess.PIPE, stderr=subprocess.STDOUT, text=True)
        if c.returncode != 0:
            print(f"{name}: edit does not compile (not a mutant): {c.stdout[-200:]}"); bad += 1; continue
        ok, why = gen_and_build(wt, pid)
        print(f"{name} [{pid}]: " + ("SLEPT - tie not sensitive to this edit" if ok else "caught - " + why))
        bad += 1 if ok else 0
    finally:
        subprocess.run(["git", "-C", "/repo", "worktree", "remove", "--force", wt])
shutil.rmtree(work, ignore_errors=True)
sys.exit(1 if bad else 0)
