#!/usr/bin/env python3
"""Mutation self-test helper: apply an edit to a SCRATCH copy of /repo (never /repo itself),
build the harness against it and run components. Usage:
  mutest.py <name> <file> <old> <new> <component>[,<component>...] [cases]
Scratch copies live under /tmp/mutest_<pid> and are removed afterwards."""
import sys, os, subprocess, shutil, json, tempfile
name, f, old, new, comps = sys.argv[1:6]
cases = sys.argv[6] if len(sys.argv) > 6 else "0"
d = tempfile.mkdtemp(prefix="mutest_")
env = dict(os.environ, GOFLAGS="-mod=mod", GOPROXY="off", GOSUMDB="off", GOTOOLCHAIN="local", CGO_ENABLED="0")
try:
    repo = os.path.join(d, "repo")
    subprocess.run(["rsync", "-a", "--exclude", ".git", "/repo/", repo + "/"], check=True)
    p = os.path.join(repo, f)
    s = open(p).read()
    if s.count(old) != 1:
        print(f"[{name}] pattern occurs {s.count(old)} times"); sys.exit(2)
    open(p, "w").write(s.replace(old, new))
    h = os.path.join(d, "harness")
    shutil.copytree("/verif/harness", h)
    subprocess.run([sys.executable, "/verif/tools/mkgomod.py", repo, os.path.join(h, "go.mod")], check=True)
    shutil.copy(os.path.join(repo, "go.sum"), os.path.join(h, "go.sum"))
    r = subprocess.run(["go", "build", "-tags", "verif", "-o", os.path.join(d, "bfharness"), "."], cwd=h, env=env,
                       stdout=subprocess.PIPE, stderr=subprocess.STDOUT, text=True)
    if r.returncode != 0:
        print(f"[{name}] harness does not build against the mutant:\n" + r.stdout[-800:]); sys.exit(3)
    for comp in comps.split(","):
        out = os.path.join(d, "res.json")
        cmd = [os.path.join(d, "bfharness"), "-component", comp, "-seed", "1", "-out", out]
        if cases != "0":
            cmd += ["-cases", cases]
        r = subprocess.run(cmd, stdout=subprocess.PIPE, stderr=subprocess.PIPE, text=True)
        res = json.load(open(out))
        mm = res.get("mismatches") or []
        mh = res.get("monitor_hits") or []
        props = sorted({h["violation"]["property"] for h in mh})
        print(f"[{name}] {comp}: rc={r.returncode} mismatches={len(mm)} monitor_hits={len(mh)} props={props}")
        if mh:
            h0 = mh[0]
            print("   smallest hit:", len(h0["lines"]), "lines;", h0["violation"]["what"][:160])
finally:
    shutil.rmtree(d, ignore_errors=True)
